"""Which jobs decide which property, per tier. See DESIGN.md section 5."""
import json
import os
import subprocess

KINDS3 = ["list", "map", "counter"]


def E(cfg, kind, n, rate=1.0, **kw):
    return dict(mode="edge", cfg=cfg, kind=kind, n=n, rate=rate, **kw)


def S(cfg, kind, n, num, depth, **kw):
    return dict(mode="sim", cfg=cfg, kind=kind, n=n, num=num, depth=depth, **kw)


def M(cfg, kind, **kw):
    return dict(mode="mc", cfg=cfg, kind=kind, **kw)


def SE(cfg, n, rate=1.0, kind="counter", **kw):
    return dict(mode="edge", cfg=cfg, kind=kind, n=n, rate=rate, tool="syncreplay", dump_module="OrdaSyncDump.tla", **kw)


def SS(cfg, n, num, depth, kind="counter", **kw):
    return dict(mode="sim", cfg=cfg, kind=kind, n=n, num=num, depth=depth, tool="syncreplay", dump_module="OrdaSyncDump.tla", **kw)


def SM(cfg, **kw):
    return dict(mode="mc", cfg=cfg, kind="counter", module="OrdaSync.tla", **kw)


def TR(kind, rounds, steps):
    """I->S: long random histories of real replicas (2-5 replicas, batches of up to a dozen values) recorded by repdriver and
    validated by TLC against OrdaReplicaTrace: every event re-executed with the kernels, all invariants in every state"""
    return dict(mode="trace", cfg="rep_trace_" + kind, module="OrdaReplicaTrace.tla", tool="repdriver", kind=kind,
                args=["-kind", kind, "-rounds", str(rounds), "-steps", str(steps), "-seed", "{seed}"],
                why="a recorded history of real replicas is not one the specification of the datatype allows")


def traces(tier, kinds=("list", "map", "counter", "doc")):
    if tier == "quick":
        return [TR(k, 4, 150) for k in kinds]
    return [TR(k, 25, 220) for k in kinds] + [TR(k, 25, 221) for k in kinds if k == "list"]


def BIG(n=1):
    """I->S: one LONG sequential history (a client more than a thousand operations behind, more pending operations than one
    buffer holds with a transaction across the boundary), recorded and validated by TLC against OrdaSyncTrace"""
    return dict(mode="trace", cfg="sync_trace_big", module="OrdaSyncTrace.tla", tool="concdriver", kind="list", args=["-big", str(n), "-seed", "{seed}"],
                why="a long recorded history is not one the protocol specification allows")


def MU(tier):
    """several datatypes per client through the public API (Client.Sync over gRPC, one message with a pack per datatype)"""
    e = dict(mode="edge", cfg="multi_2x2_edge", kind="counter", n=2, tool="multireplay", dump_module="OrdaMultiDump.tla")
    sm = dict(mode="sim", cfg="multi_sim", kind="counter", n=3, tool="multireplay", dump_module="OrdaMultiDump.tla")
    if tier == "quick":
        return [dict(e, rate=0.015), dict(sm, num=6, depth=60)]
    return [dict(mode="mc", cfg="multi_big", kind="counter", module="OrdaMulti.tla"), dict(e, rate=0.5), dict(sm, num=300, depth=80)]


def multi(tier, props_doc=True):
    """multi-replica histories shared by C01, C02, C15"""
    if tier == "quick":
        return [E("list_edge3", "list", 3), E("list_edgeb", "list", 2), E("list_edge", "list", 2, rate=0.25),
                E("map_edge", "map", 2), E("map_edge3", "map", 3), E("counter_edge", "counter", 2, rate=0.5),
                S("list_sim", "list", 3, 60, 40), S("map_sim", "map", 3, 60, 40), S("counter_sim", "counter", 4, 40, 40),
                E("doc_edge", "doc", 2, rate=0.5), E("doc_edgeo", "doc", 2, rate=0.5), S("doc_sim", "doc", 3, 60, 40)]
    return [M("list_mc", "list"), M("list_mc3", "list"), M("map_mc", "map"), M("map_mc3", "map"), M("counter_mc", "counter"),
            E("list_edge3", "list", 3), E("list_edgeb", "list", 2), E("list_edge", "list", 2),
            E("map_edge", "map", 2), E("map_edge3", "map", 3), E("counter_edge", "counter", 2),
            S("list_sim", "list", 3, 600, 50), S("list_sim4", "list", 4, 300, 60), S("map_sim", "map", 3, 600, 50),
            S("map_sim4", "map", 4, 300, 60), S("counter_sim", "counter", 4, 300, 50),
            M("doc_mc", "doc"), E("doc_edge", "doc", 2), E("doc_edgeo", "doc", 2), S("doc_sim", "doc", 3, 600, 50)]


def hot(tier):
    """three replicas contending for one key (Map key / Document object key): complete histories only - one path per
    (operations with their timestamps, log order)"""
    j = [E("doc_hot3_final", "doc", 3), E("map_hot3_final", "map", 3)]
    if tier == "quick":
        return j
    # (a *_final configuration is a complete model check with all invariants as well: no separate doc_hot3b_mc)
    return j + [M("map_hot3b_mc", "map"), E("doc_hot3b_final", "doc", 3, timeout=1800)]


def jobs(prop, tier):
    q = tier == "quick"
    if prop in ("C01", "C02"):
        return multi(tier) + hot(tier) + traces(tier)
    if prop == "C15":
        # identifiers also over histories with failing calls, rollbacks (aborted transactions) and remote deliveries
        extra = ([E("list_tx_edge", "list", 2, rate=0.2), E("map_txb_edge", "map", 2, rate=0.1), S("map_tx_sim", "map", 3, 40, 40),
                  S("list_tx_sim", "list", 3, 40, 40), S("doc_tx_sim", "doc", 3, 30, 40)] if q else
                 [E("list_tx_edge", "list", 2), E("map_txb_edge", "map", 2), S("map_tx_sim", "map", 3, 400, 50),
                  S("list_tx_sim", "list", 3, 400, 50), S("doc_tx_sim", "doc", 3, 300, 50), S("counter_tx_sim", "counter", 3, 200, 50)])
        # the identifier operators of the specification bound to the code's functions point by point, and real
        # histories for every pair of element identifiers that a separator-less key would confuse
        def IDS(cfg, **kw):
            return dict(mode="edge", cfg=cfg, kind="ids", n=0, rate=1.0, tool="idscheck", dump_module="OrdaIdsGrid.tla", prefix="IDS", **kw)
        ids = [IDS("ids_points", shards=1), IDS("ids_pairs"), IDS("ids_ids"), IDS("ids_collide")]
        # the server's own replica issues operations too (REST patch): they must be ordered after the stored log
        ids += [dict(mode="edge", cfg=c, kind="doc", n=2, rate=(0.25 if q else 1.0), tool="snapreplay", dump_module="OrdaSnapDump.tla")
                for c in ("snap_patch_edge", "snap_nosnap_edge")]
        return multi(tier) + extra + ids + traces(tier)
    if prop == "C05":
        if q:
            return [SE("sync_basic_edge", 2, rate=0.06), SE("sync_sc_edge", 2, rate=0.05), SE("sync_3_edge", 3, rate=0.003),
                    SS("sync_sim", 3, 25, 60),
                    # the same protocol histories with a List (tagged inserts at head / middle): the order of the
                    # elements at settled points depends on the clocks the clients carry through their entry
                    SE("sync_join_edge", 2, rate=0.05, kind="list"), SE("sync_sc_edge", 2, rate=0.02, kind="list"),
                    SS("sync_sim", 3, 16, 60, kind="list")] + MU(tier)
        # (measured: with every transition of every configuration replayed for both kinds the tier took 52 minutes on a
        # loaded machine and one shard ran into its time limit; sampled at 5-6 times the quick tier's rates)
        return MU(tier) + [BIG(2), SM("sync_basic"), SM("sync_sc"), SM("sync_3"), SM("sync_big"), SM("sync_join"), SE("sync_basic_edge", 2, rate=0.35), SE("sync_sc_edge", 2, rate=0.3),
                SE("sync_3_edge", 3, rate=0.02), SS("sync_sim", 3, 400, 80),
                SE("sync_join_edge", 2, rate=0.3, kind="list"), SE("sync_sc_edge", 2, rate=0.12, kind="list"), SE("sync_basic_edge", 2, rate=0.15, kind="list"),
                SE("sync_3_edge", 3, rate=0.01, kind="list"), SS("sync_sim", 3, 200, 80, kind="list")]
    if prop == "C06":
        if q:
            return [SE("sync_basic_edge", 2, rate=0.08), SE("sync_3_edge", 3, rate=0.004), SE("sync_faults_edge", 2, rate=0.004),
                    SS("sync_sim", 3, 30, 60), SS("sync_faults_sim", 3, 30, 60), BIG(1)]
        return [BIG(3), SM("sync_basic"), SM("sync_3"), SM("sync_faults"), SE("sync_basic_edge", 2), SE("sync_3_edge", 3, rate=0.05),
                SE("sync_faults_edge", 2, rate=0.05), SS("sync_sim", 3, 500, 80), SS("sync_faults_sim", 3, 500, 80)]
    if prop == "C07":
        if q:
            return [SE("sync_faults_edge", 2, rate=0.006), SE("sync_faults_sc_edge", 2, rate=0.006), SE("sync_faults_late_edge", 2, rate=0.006),
                    SS("sync_faults_sim", 3, 40, 60)]
        return [SM("sync_faults"), SM("sync_faults_sc"), SM("sync_faults_late"), SE("sync_faults_edge", 2, rate=0.05),
                SE("sync_faults_sc_edge", 2, rate=0.05), SE("sync_faults_late_edge", 2, rate=0.05), SS("sync_faults_sim", 3, 800, 80)]
    if prop == "C13":
        # I->S: racing SubscribeOrCreate entries on a new key (real goroutines), validated against OrdaSyncTrace
        race = dict(mode="trace", cfg="sync_trace_soc", module="OrdaSyncTrace.tla", tool="concdriver", kind="counter",
                    why="racing SubscribeOrCreate entries are not explained by any one-at-a-time order of the requests")
        ent = ["sync_entry_t1", "sync_entry_t2", "sync_entry_t3", "sync_entry_cc", "sync_entry_ss", "sync_entry_pre"]
        if q:
            return [SE(c + "_edge", 2, rate=(0.1 if c == "sync_entry_pre" else 1.0)) for c in ent] + [SE("sync_sc_edge", 2, rate=0.05), SE("sync_3_edge", 3, rate=0.002),
                                                                                                        # entries whose requests or answers are repeated, lost or late
                                                                                                        SE("sync_faults_sc_edge", 2, rate=0.004),
                                                                                                        dict(race, args=["-entry", "120", "-seed", "{seed}"])]
        return [SM(c) for c in ent] + [SE(c + "_edge", 2) for c in ent] + [SE("sync_sc_edge", 2, rate=0.5), SE("sync_3_edge", 3, rate=0.03),
                                                                         SE("sync_basic_edge", 2, rate=0.3), SE("sync_faults_sc_edge", 2, rate=0.05),
                                                                         dict(race, args=["-entry", "1500", "-seed", "{seed}"])]
    if prop == "C14":
        return [dict(mode="edge", cfg="codec", kind="codec", n=0, rate=1.0, tool="codeccheck", dump_module="OrdaCodec.tla", prefix="CODEC")]
    if prop == "C12":
        tr = dict(mode="trace", cfg="sync_trace", module="OrdaSyncTrace.tla", tool="concdriver", kind="counter")
        # first contact: simultaneous first requests for a key (and a lock name) the server has never seen
        first = dict(mode="trace", cfg="sync_trace_soc", module="OrdaSyncTrace.tla", tool="concdriver", kind="counter",
                     why="simultaneous first requests for a new key equal no one-at-a-time order of the requests")
        if q:
            return [dict(tr, args=["-rounds", "60", "-seed", "{seed}"]), dict(first, args=["-entry", "120", "-seed", "{seed}"])]
        return [dict(tr, args=["-rounds", "1500", "-seed", "{seed}"]), dict(tr, args=["-rounds", "1500", "-seed", "{seed}7"]),
                dict(first, args=["-entry", "1500", "-seed", "{seed}"])]
    if prop == "C20":
        def G(cfg, kinds, rate=1.0):
            return dict(mode="edge", cfg=cfg, kind=kinds, n=2, rate=rate, tool="gatereplay", dump_module="OrdaTxLockDump.tla")
        base = [G("txlock_2op_final", "1:op,2:op"), G("txlock_optx_final", "1:op,2:tx"), G("txlock_3_final", "1:op,2:tx,3:remote"),
                G("txlock_fail_final", "1:op,2:txfail"), G("txlock_fail3_final", "1:op,2:txfail,3:tx;txlen=1"),
                # every complete schedule (the history is part of the state there), not one path per state
                G("txlock_optx_paths", "1:op,2:tx"), G("txlock_fail_paths", "1:op,2:txfail")]
        free = dict(mode="go", cfg="free-running goroutines", kind="counter", tool="gatereplay", args=["-stress", "3000" if q else "200000", "-seed", "{seed}"])
        if q:
            return base + [free]
        return [dict(mode="mc", cfg="txlock_big", kind="counter", module="OrdaTxLock.tla")] + base + [free]
    if prop == "C19":
        pe = dict(mode="edge", cfg="doc_patch_edge", kind="doc", n=2, dump_module="OrdaReplicaProbeDump.tla")
        sp = dict(mode="edge", cfg="snap_patch_edge", kind="doc", n=2, tool="snapreplay", dump_module="OrdaSnapDump.tla")
        ns = dict(sp, cfg="snap_nosnap_edge")
        # REST patches of one key in flight at the same time (free-running; the log replay is the oracle)
        par = dict(mode="go", cfg="parallel REST patches", kind="doc", tool="snapreplay", args=["-patchstress", "60" if q else "2500", "-seed", "{seed}"])
        if q:
            return [dict(pe, rate=0.25), dict(sp, rate=0.25), dict(ns, rate=0.25), par]
        return [dict(pe, rate=1.0), dict(sp, rate=1.0), dict(ns, rate=1.0), dict(mode="sim", cfg="snap_patch_sim", kind="doc", n=2, num=40, depth=50, tool="snapreplay", dump_module="OrdaSnapDump.tla"), par]
    if prop in ("C11", "C18"):
        def SN(cfg, kind, rate=1.0):
            return dict(mode="edge", cfg=cfg, kind=kind, n=2, rate=rate, tool="snapreplay", dump_module="OrdaSnapDump.tla")

        def SNS(cfg, kind, n, num, depth):
            return dict(mode="sim", cfg=cfg, kind=kind, n=n, num=num, depth=depth, tool="snapreplay", dump_module="OrdaSnapDump.tla")
        # realtime half of C18: OrdaRealtime replayed on real REALTIME clients behind gRPC with a gated broker
        def RT(cfg, rate=1.0):
            return dict(mode="edge", cfg=cfg, kind="counter", n=2, rate=rate, tool="rtreplay", dump_module="OrdaRealtimeDump.tla")

        def RTS(num, depth):
            return dict(mode="sim", cfg="rt_sim", kind="counter", n=3, num=num, depth=depth, tool="rtreplay", dump_module="OrdaRealtimeDump.tla")

        def RTM(cfg):
            return dict(mode="mc", cfg=cfg, kind="counter", module="OrdaRealtime.tla")
        rt = []
        if prop == "C11":
            # I->S: real parallel pushes with delayed database commands; the store-level writes are validated by TLC
            st = dict(mode="trace", cfg="snap_store_trace", module="OrdaSnapStore.tla", tool="snapreplay", kind="list",
                      why="the writes the server made to its store are not ones the specification of snapshots and user document allows")
            rt = ([dict(st, args=["-stress", "120", "-seed", "{seed}"])] if q else
                  [dict(st, args=["-stress", "800", "-seed", "{seed}"]), dict(st, args=["-stress", "800", "-seed", "{seed}3"])])
        if prop == "C18":
            rt = ([RT("rt_1k_edge", 0.04), RT("rt_2k_edge", 0.004), RTS(5, 40), RTM("rt_live_1k"), RTM("rt_live_2k")] if q else
                  [RT("rt_1k_edge", 1.0), RT("rt_2k_edge", 0.1), RTS(150, 60), RTM("rt_live_1k"), RTM("rt_live_2k"), RTM("rt_2k"), RTM("rt_3c"), RTM("rt_1k2")])
        if q:
            return ([SN("snap_small_edge", k) for k in ("counter", "map")] + [SN("snap_mid_edge", k, rate=0.25) for k in ("list", "doc")] +
                    [SNS("snap_sim", "list", 3, 6, 40), SNS("snap_sim", "doc", 3, 6, 40)]) + rt
        return ([dict(mode="mc", cfg="snap_mc", kind="list", module="OrdaSnap.tla")] + [SN("snap_mid_edge", k) for k in ("counter", "map", "list", "doc")] +
                [SN("snap_patch_edge", "doc")] + [SNS("snap_sim", k, 3, 60, 50) for k in ("counter", "map", "list", "doc")]) + rt
    if prop == "C16":
        f = dict(dump_module="OrdaSyncProbeDump.tla")
        # a REST patch refused because its caller gave up while another patch held the key's lock changes nothing
        giveup = dict(mode="go", cfg="REST patches given up by their caller", kind="doc", tool="snapreplay", args=["-patchstress", "25" if q else "600", "-seed", "{seed}"])
        if q:
            return [dict(SE("sync_probe16_edge", 2, rate=0.12), **f), dict(SE("sync_probe16sc_edge", 2, rate=0.2), **f), giveup]
        return [dict(SE("sync_probe16_edge", 2), **f), dict(SE("sync_probe16sc_edge", 2), **f), giveup]
    if prop == "C17":
        f = dict(dump_module="OrdaSyncProbeDump.tla")
        ff = dict(dump_module="OrdaSyncFaultProbeDump.tla")     # resets after a handler run cut in half by a storage fault
        if q:
            return [dict(SE("sync_probe17_edge", 2, rate=0.3), **f), dict(SE("sync_faultprobe17_edge", 2, rate=0.1), **ff),
                    dict(SE("sync_faultprobe17sc_edge", 2, rate=0.1), **ff)] + MU(tier)
        return [dict(SE("sync_probe17_edge", 2), **f), dict(SE("sync_faultprobe17_edge", 2), **ff), dict(SE("sync_faultprobe17sc_edge", 2), **ff)] + MU(tier)
    if prop == "C08":
        f = dict(dump_module="OrdaSyncFaultDump.tla")
        if q:
            return [dict(SE("sync_db_edge", 2, rate=0.03), **f), dict(SE("sync_db_sc_edge", 2, rate=0.01), **f),
                    dict(SS("sync_db_sim", 3, 10, 60), **f)]
        # (every transition of both graphs replayed took longer than a shard's time limit on a loaded machine - every faulted
        # behaviour waits for the background work of earlier pushes, some restart the server: sampled at eight times the quick rate)
        return [dict(SM("sync_db2"), module="OrdaSyncFault.tla"), dict(SE("sync_db_edge", 2, rate=0.25), **f),
                dict(SE("sync_db_sc_edge", 2, rate=0.1), **f), dict(SS("sync_db_sim", 3, 200, 80), **f)]
    if prop == "C04":
        if q:
            return [E("list_edge3", "list", 3), E("list_edgeb", "list", 2), E("list_edge", "list", 2, rate=0.25), S("list_sim", "list", 3, 80, 40),
                    # the arrays of a Document (element identity = the unique tag of an inserted primitive)
                    E("doc_edge", "doc", 2, rate=0.5), S("doc_sim", "doc", 3, 60, 40)] + traces(tier, ("list", "doc"))
        return traces(tier, ("list", "doc")) + [M("list_mc", "list"), M("list_mc3", "list"), E("list_edge3", "list", 3), E("list_edgeb", "list", 2), E("list_edge", "list", 2),
                S("list_sim", "list", 3, 800, 50), S("list_sim4", "list", 4, 500, 60),
                M("doc_mc", "doc"), E("doc_edge", "doc", 2), E("doc_edgeo", "doc", 2), S("doc_sim", "doc", 3, 600, 50)]
    if prop == "C03":
        if q:
            return [E("list_one_edge", "list", 1), E("map_one_edge", "map", 1), E("counter_one_edge", "counter", 1),
                    S("list_one_sim", "list", 1, 40, 45), S("map_one_sim", "map", 1, 40, 45), S("counter_one_sim", "counter", 1, 20, 35),
                    E("doc_one_edge", "doc", 1, rate=0.5), S("doc_one_sim", "doc", 1, 40, 25)]
        return [M("list_one_mc", "list"), M("map_one_mc", "map"), E("list_one_edge", "list", 1), E("map_one_edge", "map", 1),
                E("counter_one_edge", "counter", 1), S("list_one_sim", "list", 1, 500, 45), S("map_one_sim", "map", 1, 500, 45),
                S("counter_one_sim", "counter", 1, 200, 35), E("doc_one_edge", "doc", 1), S("doc_one_sim", "doc", 1, 500, 25)]
    if prop == "C09":
        if q:
            return [E("list_tx_edge", "list", 2, rate=0.3), E("list_txb_edge", "list", 2, rate=0.12), E("map_tx_edge", "map", 2, rate=0.3),
                    E("counter_tx_edge", "counter", 2, rate=0.3), S("list_tx_sim", "list", 3, 60, 40), S("map_tx_sim", "map", 3, 60, 40), S("counter_tx_sim", "counter", 3, 30, 40),
                    E("doc_tx_edge", "doc", 2, rate=0.3), S("doc_tx_sim", "doc", 3, 40, 40), BIG(1)] + traces(tier)
        return traces(tier) + [BIG(2), M("list_tx_mc", "list"), E("list_tx_edge", "list", 2), E("list_txb_edge", "list", 2), E("map_tx_edge", "map", 2),
                E("map_txb_edge", "map", 2), E("counter_tx_edge", "counter", 2), S("list_tx_sim", "list", 3, 500, 50),
                S("map_tx_sim", "map", 3, 500, 50), S("counter_tx_sim", "counter", 3, 300, 50),
                E("doc_tx_edge", "doc", 2), S("doc_tx_sim", "doc", 3, 500, 50)]
    if prop == "C10":
        if q:
            return [E("list_res_edge", "list", 2, rate=0.4), E("map_res_edge", "map", 2), E("counter_res_edge", "counter", 2, rate=0.3),
                    S("list_res_sim", "list", 3, 60, 40), S("map_res_sim", "map", 3, 60, 40), S("counter_res_sim", "counter", 3, 30, 40),
                    E("doc_res_edge", "doc", 2, rate=0.3), S("doc_res_sim", "doc", 3, 40, 40)]
        return [E("list_res_edge", "list", 2), E("map_res_edge", "map", 2), E("counter_res_edge", "counter", 2),
                S("list_res_sim", "list", 3, 500, 50), S("map_res_sim", "map", 3, 500, 50), S("counter_res_sim", "counter", 3, 300, 50),
                E("doc_res_edge", "doc", 2), S("doc_res_sim", "doc", 3, 500, 50)]
    return []


def level(prop):
    return "exploration" if prop == "C14" else "model_checking"


def rule(prop):
    if prop == "C14":
        return ("TLC enumerates the grid operation type x value class x batch position of spec/OrdaCodec.tla (every point is one initial state); "
                "a point is non-trivial if the real local call emitted an operation; each point is sent through five encode/decode paths; "
                "points are distinct by construction")
    return None


def assumptions(prop):
    return ["the specification's bounds (constants in the cfg files) limit what was enumerated",
            "replicas receive operations in server-log order (the delivery discipline the protocol guarantees)",
            "values are concretised from integer tags through harness/vals (ints of every width, floats, strings, pointers)"]


panic_line = None


def run_go_job(job, prop, tier, seed, scratch, ev, rec, ROOT, ENV, tlc, tlc_stats, Infra):
    """A harness command that drives the real code by itself (seeded) and prints one JSON summary line."""
    cmd = [os.path.join(ROOT, "bin", job["tool"])] + [a.replace("{seed}", str(seed)) for a in job["args"]]
    errf = os.path.join(scratch, "go.stderr")
    with open(errf, "w") as ef:
        try:
            p = subprocess.run(cmd, stdout=subprocess.PIPE, stderr=ef, text=True, timeout=job.get("timeout", 1200), env=dict(ENV, VERIF_STDERR="1"))
        except subprocess.TimeoutExpired:
            raise Infra("%s did not finish within its time limit" % os.path.basename(cmd[0]))
    if p.returncode not in (0, 1):
        pl = panic_line(errf)       # set by lib/check.py: harness-own faults raise Infra there
        if pl is None:
            raise Infra("%s failed (rc=%d): %s" % (job["tool"], p.returncode, open(errf, errors="replace").read()[-600:]))
        v = dict(property=prop, kind=job.get("kind", ""), n=0, why="the process died: " + pl, steps=[{"name": " ".join(cmd)}], tool=job["tool"],
                 hash="go-" + str(abs(hash(pl)) % 10**8), confirm_cmd=" ".join(cmd) + " >/dev/null 2>&1; test $? -ne 0 && exit 1 || exit 0")
        v["class"] = "crash"
        ev["violations"].append(v)
        ev["nviol"] += 1
        return
    try:
        s = json.loads(p.stdout.strip().splitlines()[-1])
    except Exception:
        raise Infra("%s produced no summary: %s" % (job["tool"], p.stdout[-300:]))
    rec.update({k: s.get(k) for k in ("behaviours", "completed", "nviol", "checked")})
    ev["go_evaluations"] += s.get("behaviours", 0)
    ev["go_distinct"] += s.get("distinct", 0)
    for a, b in (s.get("checked") or {}).items():
        ev["checked"][a] = ev["checked"].get(a, 0) + b
    for v in s.get("violations") or []:
        v["confirm_cmd"] = " ".join(cmd) + " >/dev/null 2>&1"
        ev["violations"].append(v)
    ev["nviol"] += s.get("nviol", 0)
    if len(ev["samples"]) < 3 and s.get("samples"):
        ev["samples"].extend(s["samples"][:1])
