#!/bin/bash
# usage: seed_build.sh <patch.diff> <dir>   -> <dir>/repo (scratch worktree with the change), <dir>/bin (harness built against it)
# For looking at ONE tool's behaviour under a seeded change without touching /repo. Remove with:
#   git -C /repo worktree remove --force <dir>/repo; rm -rf <dir>
export GOFLAGS=-mod=mod GOPROXY=off GOSUMDB=off GOTOOLCHAIN=local
PATCH=$(readlink -f "$1"); D=$2
rm -rf "$D"; mkdir -p "$D"
git -C /repo worktree add --detach "$D/repo" HEAD >/dev/null 2>&1 || exit 2
git -C "$D/repo" apply "$PATCH" || exit 2
cp -r "$(dirname "$0")/../harness" "$D/harness"
sed -i "s#=> /repo#=> $D/repo#g" "$D/harness/go.mod"
(cd "$D/harness" && go build -tags verif -o "$D/bin/" ./cmd/...) || exit 2
echo "built $D/bin"
