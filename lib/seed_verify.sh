#!/bin/bash
# usage: seed_verify.sh <worktree> <patch.diff> <demo_test.go> <module: client|server> <pkgdir relative to module>
# Confirms a seeded change: existing tests pass with it, the demonstration fails with it and passes without it.
export GOFLAGS=-mod=mod GOPROXY=off GOSUMDB=off GOTOOLCHAIN=local
WT=$1; PATCH=$2; DEMO=$3; MOD=${4:-client}; PKG=${5:-pkg/orda}
cd "$WT" || exit 2
git checkout -q -- . ; git clean -fdq
cp "$DEMO" "$WT/$MOD/$PKG/" || exit 2
name=$(basename "$DEMO")
echo "== demo WITHOUT the change (must pass)"
(cd $MOD && go test -vet=off -count=1 ./$PKG/ -run 'Seeded' 2>&1 | tail -3)
git apply "$PATCH" || { echo "patch does not apply"; exit 2; }
echo "== existing tests WITH the change (must pass)"
mv "$WT/$MOD/$PKG/$name" /tmp/$name.hold
(cd $MOD && go build ./... && go test -vet=off -count=1 ./pkg/... 2>&1 | grep -v "no test files" | tail -8)
if [ "$MOD" = client ]; then (cd server && go build ./... && echo "server builds"); fi
mv /tmp/$name.hold "$WT/$MOD/$PKG/$name"
echo "== demo WITH the change (must fail)"
(cd $MOD && go test -vet=off -count=1 ./$PKG/ -run 'Seeded' 2>&1 | tail -4)
git checkout -q -- . ; git clean -fdq
