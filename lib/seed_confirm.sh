#!/bin/bash
# usage: seed_confirm.sh <scratch root, e.g. /tmp/seed/C18> <change dir under root/out>
# Confirms a seeded change produced by a sub-agent in its scratch worktree <root>/wt (kit at <root>/kit):
#   demo passes on the clean worktree, existing client tests pass and the server builds with the change,
#   demo fails with the change. Leaves the worktree clean.
export GOFLAGS=-mod=mod GOPROXY=off GOSUMDB=off GOTOOLCHAIN=local
ROOT=$1; CH=$ROOT/out/$2; WT=$ROOT/wt; KIT=$ROOT/kit
cd "$WT" || exit 2
git checkout -q -- . ; git clean -fdq
run_demo() {
  if [ -f "$CH/demo_main.go" ]; then
    mkdir -p $KIT/cmd/demo; cp "$CH/demo_main.go" $KIT/cmd/demo/main.go
    (cd $KIT && timeout 600 go run ./cmd/demo >/tmp/seed_demo.out 2>&1); rc=$?
    echo "   demo rc=$rc: $(tail -2 /tmp/seed_demo.out | tr '\n' ' ' | cut -c1-300)"
  else
    PKG=${SEED_PKG:-client/pkg/orda}
    MOD=${PKG%%/*}; SUB=${PKG#*/}
    cp "$CH"/seeded_demo*_test.go "$WT/$PKG/" 2>/dev/null
    (cd $WT/$MOD && timeout 900 go test -vet=off -count=1 -run 'TestSeeded' ./$SUB/ >/tmp/seed_demo.out 2>&1); rc=$?
    rm -f "$WT/$PKG"/seeded_demo*_test.go
    echo "   demo rc=$rc: $(tail -3 /tmp/seed_demo.out | tr '\n' ' ' | cut -c1-300)"
  fi
  return $rc
}
echo "== demo WITHOUT the change (must pass)"; run_demo; A=$?
git apply "$CH/patch.diff" || { echo "patch does not apply"; exit 2; }
echo "== existing tests WITH the change (must pass)"
(cd client && go build ./... && go test -vet=off -count=1 ./... 2>&1 | grep -v "no test files" | grep -v "^ok" | tail -5); T=${PIPESTATUS[0]}
(cd server && go build ./... && go test -vet=off -count=1 -run '^$' ./... >/dev/null 2>&1 && echo "   server builds") || T=1
(cd $WT && go build ./... 2>&1 | tail -2)
echo "== demo WITH the change (must fail)"; run_demo; B=$?
git checkout -q -- . ; git clean -fdq
if [ $A = 0 ] && [ $B != 0 ]; then echo "CONFIRMED $2"; else echo "NOT CONFIRMED $2 (clean rc=$A, changed rc=$B)"; fi
