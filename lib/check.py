#!/usr/bin/env python3
"""Entry point of the framework:  ./check <ID> --tier quick|thorough [--replay <path>]

For one property it runs the jobs of lib/plan.py:
  mc      TLC exhaustive model check of a configuration (design-level verdict + state counts)
  edge    TLC exhaustive + transition dump, every (sampled) transition replayed on the real code
  sim     TLC simulation, every walk replayed on the real code
  go      a Go harness command that drives the real code by itself and (optionally) leaves ndjson
          traces that TLC validates against a trace specification
and writes evidence/<ID>.json from what the run actually did.

Exit 0: the property held on everything explored (KNOWN-FINDING lines possible).
Exit 1: an unlisted violation reproduced on the real code; prints VIOLATION property=<id> replay=<path>.
Exit 2: infrastructure problem (build failure, TLC error/timeout, dead harness) - never a verdict.
"""
import argparse
import concurrent.futures as cf
import hashlib
import json
import os
import random
import re
import shutil
import subprocess
import sys
import tempfile
import time

ROOT = os.path.dirname(os.path.dirname(os.path.abspath(__file__)))
sys.path.insert(0, os.path.join(ROOT, "lib"))
import plan  # noqa: E402
import findings  # noqa: E402

ENV = dict(os.environ, GOFLAGS="-mod=mod", GOPROXY="off", GOSUMDB="off", GOTOOLCHAIN="local", CGO_ENABLED="0")
NCPU = os.cpu_count() or 4
# The registered checks always build against /repo and write to /verif/evidence. For measuring the framework
# against seeded changes (lib/seed_eval.sh) a run can be pointed at a scratch copy of the repository instead:
# VERIF_REPO=<checkout> builds a private copy of the harness against it, VERIF_OUT=<dir> receives binaries and
# evidence, so that such runs neither touch /repo nor /verif/evidence and can run side by side.
REPO = os.environ.get("VERIF_REPO", "/repo")
OUT = os.environ.get("VERIF_OUT", ROOT)
BIN = os.path.join(OUT, "bin")
EVID = os.path.join(OUT, "evidence")


class Infra(Exception):
    pass


def build():
    """Rebuild the harness against /repo's current working tree (go's build cache makes it incremental)."""
    os.makedirs(BIN, exist_ok=True)
    src = os.path.join(ROOT, "harness")
    if REPO != "/repo":
        src = os.path.join(OUT, "harness")
        shutil.rmtree(src, ignore_errors=True)
        shutil.copytree(os.path.join(ROOT, "harness"), src)
        gm = open(os.path.join(src, "go.mod")).read().replace("=> /repo", "=> " + REPO)
        open(os.path.join(src, "go.mod"), "w").write(gm)
    p = subprocess.run(["go", "build", "-tags", "verif", "-o", BIN + "/", "./cmd/..."],
                       cwd=src, env=ENV, capture_output=True, text=True)
    if p.returncode != 0:
        raise Infra("harness build failed:\n" + p.stdout + p.stderr)


def tlc(scratch, cfg, module, extra, out_path, timeout, workers=None):
    """Run TLC in a private copy of spec/; stdout goes to out_path. Returns (rc, seconds)."""
    d = tempfile.mkdtemp(prefix="tlc-", dir=scratch)
    for f in os.listdir(os.path.join(ROOT, "spec")):
        if f.endswith(".tla") or f.endswith(".cfg"):
            shutil.copy(os.path.join(ROOT, "spec", f), d)
    cmd = ["timeout", str(timeout), "tlc", "-workers", str(workers or max(4, NCPU // 2)), "-metadir", os.path.join(d, "md"),
           "-config", cfg] + extra + [module]
    # the tlc wrapper gives every JVM a quarter of the machine's memory; several run at the same time (three jobs, eight
    # simulation processes per job), so each gets an explicit limit: the kernel's OOM killer ends TLC otherwise
    heap = "-Xmx2g" if workers == 1 else ("-Xmx12g" if "Dump" not in module else "-Xmx6g")
    t0 = time.time()
    with open(out_path, "w") as out:
        p = subprocess.run(cmd, cwd=d, stdout=out, stderr=subprocess.STDOUT, env=dict(os.environ, JAVA_TOOL_OPTIONS=heap + " -Djava.io.tmpdir=" + d))
    shutil.rmtree(d, ignore_errors=True)
    return p.returncode, time.time() - t0


def tlc_stats(path):
    """Parse TLC's final report; returns dict(states, distinct, ok, error)."""
    gen = dist = 0
    ok = False
    err = None
    with open(path, errors="replace") as f:
        for line in f:
            if line.startswith('"EDGE') or line.startswith('"STEP') or line.startswith('"CODEC') or line.startswith('"IDS'):
                continue
            m = re.match(r"(\d+) states generated, (\d+) distinct states found", line)
            if m:
                gen, dist = int(m.group(1)), int(m.group(2))
            if "Model checking completed. No error has been found" in line:
                ok = True
            if line.startswith("Error:") and err is None:
                err = line.strip()
            if "is violated" in line and err is None:
                err = line.strip()
            m = re.match(r"The number of states generated: (\d+)", line)
            if m:
                gen = dist = int(m.group(1))
    return dict(states=gen, distinct=dist, ok=ok, error=err)


def split_lines(path, prefix, shards, scratch, rate, rng, group_walks=False):
    """Distribute dump lines over shard files. EDGE lines: sampled with probability rate."""
    files = [open(os.path.join(scratch, "shard-%s-%d.txt" % (os.path.basename(path), i)), "w") for i in range(shards)]
    n = kept = 0
    with open(path, errors="replace") as f:
        for line in f:
            if not line.startswith('"' + prefix):
                continue
            if not line.rstrip("\n").endswith('"'):
                continue        # TLC was stopped by its time limit in the middle of a line
            n += 1
            if rate < 1.0 and rng.random() > rate:
                continue
            files[kept % shards].write(line)
            kept += 1
    for fh in files:
        fh.close()
    return [fh.name for fh in files], n, kept


def replay(shard, job, prop, timeout):
    """Run one replay worker over a shard. A worker that dies (the code under test can kill the process:
    a panic in a server goroutine) is attributed to the behaviour in its journal, which becomes a
    violation record of class "crash"; the rest of the shard is then replayed by a new worker."""
    tool = job.get("tool", "replay")
    base = [os.path.join(BIN, tool), "-kind", job["kind"], "-n", str(job["n"]), "-prop", prop, "-in", shard]
    if tool == "replay":
        try:
            p = subprocess.run(base, capture_output=True, text=True, timeout=timeout, env=ENV)
        except subprocess.TimeoutExpired:
            raise Infra("replay timed out on " + shard)
        if p.returncode not in (0, 1):
            raise Infra("replay died (rc=%d) on %s: %s" % (p.returncode, shard, p.stdout[-2000:] + p.stderr[-2000:]))
        try:
            return json.loads(p.stdout.strip().splitlines()[-1])
        except Exception:
            raise Infra("replay produced no summary on %s: %s" % (shard, p.stdout[-500:]))
    total = {}
    skip = 0
    journal = shard + ".journal"
    errf = shard + ".stderr"
    setup_retries = 0
    for attempt in range(16):
        env = dict(ENV, VERIF_STDERR="1")
        with open(errf, "w") as ef:
            try:
                p = subprocess.run(base + ["-journal", journal, "-skip", str(skip)], stdout=subprocess.PIPE, stderr=ef, text=True,
                                   timeout=timeout, env=env)
            except subprocess.TimeoutExpired:
                raise Infra("%s timed out on %s" % (tool, shard))
        if p.returncode in (0, 1):
            try:
                merge(total, json.loads(p.stdout.strip().splitlines()[-1]))
            except Exception:
                raise Infra("%s produced no summary on %s: %s" % (tool, shard, p.stdout[-500:]))
            break
        if p.returncode == 3 and setup_retries < 4:
            # the stack (fake database, broker, gRPC loopback) did not come up in time: a loaded machine, try again
            setup_retries += 1
            time.sleep(2 * setup_retries)
            continue
        if p.returncode == 3 or not os.path.exists(journal):
            raise Infra("%s could not run (rc=%d): %s %s" % (tool, p.returncode, p.stdout[-300:], tail(errf, 300)))
        pl = panic_line(errf)
        if pl is None:
            raise Infra("%s died without a Go panic (rc=%d): %s" % (tool, p.returncode, tail(errf, 600)))
        try:
            j = json.load(open(journal))
        except Exception as ex:
            raise Infra("%s died and left an unreadable journal (%s): %s" % (tool, ex, tail(errf, 400)))
        merge(total, j["partial"])
        why = "the process died while serving this behaviour: " + pl
        v = j["record"]
        v["why"] = why
        v["hash"] = hashlib.sha1((json.dumps(v["steps"], sort_keys=True) + "crash").encode()).hexdigest()[:16]
        total.setdefault("violations", []).append(v)
        total["nviol"] = total.get("nviol", 0) + 1
        total["behaviours"] = total.get("behaviours", 0) + 1
        skip = j["nth"]
    for f in (journal, errf):
        if os.path.exists(f):
            os.remove(f)
    return total


def tail(path, n=1500):
    try:
        return open(path, errors="replace").read()[-n:]
    except Exception:
        return ""


def panic_line(path):
    """The Go panic / fatal error a worker died of. A fault whose innermost non-runtime frame lies in the harness
    itself (not in the code under test) is an error of this machinery: never a verdict about the code."""
    found = None
    try:
        lines = open(path, errors="replace").read().splitlines()
    except Exception:
        return None
    for i, line in enumerate(lines):
        if line.startswith("panic:") or line.startswith("fatal error:"):
            found = line.strip()
            running = False
            for l2 in lines[i + 1:i + 80]:
                if l2.startswith("goroutine "):
                    if running:
                        break
                    running = True
                elif running and l2.startswith("\t"):
                    f = l2.strip().split(":")[0]
                    if f.startswith("/usr/lib/go") or "/veriftools/go" in f or "/src/runtime/" in f:
                        continue
                    if "/harness/" in f and "/pkg/mod/" not in f:
                        raise Infra("the harness itself failed (%s at %s)" % (found, l2.strip()))
                    break
            break
    return found


plan.panic_line = panic_line


def merge(total, s):
    for k in ("behaviours", "steps", "completed", "desynced", "nviol", "distinct"):
        total[k] = total.get(k, 0) + s.get(k, 0)
    for k in ("checked", "desync_why"):
        d = total.setdefault(k, {})
        for a, b in (s.get(k) or {}).items():
            d[a] = d.get(a, 0) + b
    total.setdefault("violations", []).extend(s.get("violations") or [])
    if len(total.setdefault("samples", [])) < 3:
        total["samples"].extend((s.get("samples") or [])[:1])


def run_job(job, prop, tier, seed, scratch, ev):
    # every job works in its own scratch directory (several jobs may use the same configuration)
    scratch = tempfile.mkdtemp(prefix="job-", dir=scratch)
    kind = job["kind"]
    mode = job["mode"]
    rng = random.Random(seed * 7919 + hash(job["cfg"]) % 1000)
    rec = dict(cfg=job["cfg"], mode=mode)
    t0 = time.time()
    if mode == "mc":
        out = os.path.join(scratch, job["cfg"] + ".out")
        rc, secs = tlc(scratch, job["cfg"] + ".cfg", job.get("module", "OrdaReplica.tla"), job.get("extra", []), out, job.get("timeout", 1500))
        st = tlc_stats(out)
        rec.update(st, seconds=round(secs, 1))
        if not st["ok"]:
            rec["tail"] = open(out, errors="replace").read()[-3000:]
            raise Infra("TLC did not complete %s: %s\n%s" % (job["cfg"], st["error"], rec["tail"]))
        ev["states"] += st["distinct"]
        ev["transitions"] += st["states"]
    elif mode in ("edge", "sim"):
        outs = []
        if mode == "edge":
            out = os.path.join(scratch, job["cfg"] + ".out")
            rc, secs = tlc(scratch, job["cfg"] + ".cfg", job.get("dump_module", "OrdaReplicaDump.tla"), [], out, job.get("timeout", 900))
            st = tlc_stats(out)
            if not st["ok"]:
                raise Infra("TLC did not complete %s: %s\n%s" % (job["cfg"], st["error"], open(out, errors="replace").read()[-3000:]))
            outs.append(out)
            ev["states"] += st["distinct"]
            ev["transitions"] += st["states"]
            rec.update(st, tlc_seconds=round(secs, 1))
        else:
            procs = job.get("procs", max(4, NCPU // 2))
            num, depth = job["num"], job["depth"]

            def one(i):
                o = os.path.join(scratch, "%s.sim%d.out" % (job["cfg"], i))
                rc, secs = tlc(scratch, job["cfg"] + ".cfg", job.get("dump_module", "OrdaReplicaDump.tla"),
                               ["-simulate", "num=%d" % num, "-depth", str(depth), "-seed", str(seed * 1000 + i + 1)], o,
                               job.get("timeout", 900), workers=1)
                return o, rc, secs
            with cf.ThreadPoolExecutor(max_workers=procs) as ex:
                res = list(ex.map(one, range(procs)))
            gen = 0
            for o, rc, secs in res:
                st = tlc_stats(o)
                if st["error"]:
                    raise Infra("TLC simulation failed %s: %s\n%s" % (job["cfg"], st["error"], open(o, errors="replace").read()[-3000:]))
                gen += st["states"]
                outs.append(o)
            ev["states"] += gen
            ev["transitions"] += gen
            rec.update(states=gen, walks=num * procs, depth=depth)
        prefix = job.get("prefix", "EDGE" if mode == "edge" else "STEP")
        shards = []
        total_lines = kept = 0
        for o in outs:
            if mode == "edge":
                fs, n, k = split_lines(o, prefix, job.get("shards", max(4, NCPU // 2)), scratch, job.get("rate", 1.0), rng)
                shards += fs
            else:
                fs, n, k = split_lines(o, prefix, 1, scratch, 1.0, rng)
                shards += fs
            total_lines += n
            kept += k
            os.remove(o)
        rec.update(lines=total_lines, replayed_lines=kept)
        tot = {}
        with cf.ThreadPoolExecutor(max_workers=NCPU) as ex:
            for s in ex.map(lambda sh: replay(sh, job, prop, job.get("replay_timeout", 2400)), shards):
                merge(tot, s)
        for sh in shards:
            os.remove(sh)
        rec.update({k: tot.get(k) for k in ("behaviours", "steps", "completed", "desynced", "nviol", "checked", "desync_why")})
        ev["behaviours"] += tot.get("behaviours", 0)
        ev["completed"] += tot.get("completed", 0)
        ev["desynced"] += tot.get("desynced", 0)
        ev["distinct_behaviours"] += tot.get("distinct", 0)
        for a, b in (tot.get("checked") or {}).items():
            ev["checked"][a] = ev["checked"].get(a, 0) + b
        ev["violations"].extend(tot.get("violations") or [])
        ev["nviol"] += tot.get("nviol", 0)
        if len(ev["samples"]) < 3:
            ev["samples"].extend((tot.get("samples") or [])[:1])
    elif mode == "go":
        plan.run_go_job(job, prop, tier, seed, scratch, ev, rec, OUT, ENV, tlc, tlc_stats, Infra)
    elif mode == "trace":
        run_trace_job(job, prop, seed, scratch, ev, rec)
    rec["wall_s"] = round(time.time() - t0, 1)
    ev["jobs"].append(rec)


def validate_trace(trace_path, cfg, module, scratch, timeout=900):
    """TLC trace validation: returns (accepted, high_water_line, states)."""
    d = tempfile.mkdtemp(prefix="trace-", dir=scratch)
    for f in os.listdir(os.path.join(ROOT, "spec")):
        if f.endswith(".tla") or f.endswith(".cfg"):
            shutil.copy(os.path.join(ROOT, "spec", f), d)
    shutil.copy(trace_path, os.path.join(d, "trace.ndjson"))
    # long traces make the specification's recursive operators recurse deeply: a larger thread stack
    p = subprocess.run(["timeout", str(timeout), "tlc", "-workers", "1", "-metadir", os.path.join(d, "md"), "-config", cfg + ".cfg", module],
                       cwd=d, capture_output=True, text=True, env=dict(os.environ, JAVA_TOOL_OPTIONS="-Xss512m -Xmx6g -Djava.io.tmpdir=" + d))
    out = p.stdout
    hw = 0
    for m in re.finditer(r'<<"HW", (\d+)>>', out):
        hw = max(hw, int(m.group(1)))
    ms = re.findall(r"(\d+) states generated", out)
    states = int(ms[-1]) if ms else 0
    shutil.rmtree(d, ignore_errors=True)
    if "Invariant NotAccepted is violated" in out:
        return True, hw, states
    if re.search(r"Attempted to (check equality of|compare) ", out) and "OrdaReplicaTrace" in module:
        # a logged value has another SHAPE than the specification's (a value record against the marker of an absent entry,
        # say): TLC's equality is an evaluation error there instead of FALSE. Values of different shapes are different:
        # the event at the high-water mark is one the specification does not allow.
        return False, hw, states
    if "Model checking completed. No error has been found" in out:
        return False, hw, states
    raise Infra("TLC trace validation did not finish: " + out[-1500:])


def run_trace_job(job, prop, seed, scratch, ev, rec):
    """I->S: a driver runs the real code (real parallelism) and records an ndjson trace; TLC validates it."""
    trace = os.path.join(scratch, "trace.ndjson")
    cmd = [os.path.join(BIN, job["tool"])] + [a.replace("{seed}", str(seed)) for a in job["args"]] + ["-out", trace]
    errf = os.path.join(scratch, "driver.stderr")
    with open(errf, "w") as ef:
        p = subprocess.run(cmd, stdout=subprocess.PIPE, stderr=ef, text=True, timeout=job.get("timeout", 1500), env=dict(ENV, VERIF_STDERR="1"))
    if p.returncode not in (0, 1):
        pl = panic_line(errf)
        if pl is None:
            raise Infra("%s failed (rc=%d): %s" % (job["tool"], p.returncode, tail(errf, 600)))
        v = dict(property=prop, kind=job.get("kind", ""), n=0, why="the process died during a parallel run: " + pl, steps=[{"name": " ".join(cmd)}],
                 tool=job["tool"], hash="trace-crash-%d" % seed, confirm_cmd=" ".join(cmd) + " >/dev/null 2>&1; test $? -gt 1 && exit 1 || exit 0")
        v["class"] = "crash"
        ev["violations"].append(v)
        ev["nviol"] += 1
        return
    s = json.loads(p.stdout.strip().splitlines()[-1])
    rec.update(rounds=s.get("rounds"), events=s.get("events"), calls=s.get("calls"), parallel_exchanges=s.get("parallel_exchanges"))
    if s.get("registrations_in_parallel"):
        rec["registrations_in_parallel"] = s["registrations_in_parallel"]
        ev["checked"]["client registrations in the middle of parallel syncs"] = ev["checked"].get("client registrations in the middle of parallel syncs", 0) + s["registrations_in_parallel"]
    for v in s.get("violations") or []:
        v["confirm_cmd"] = " ".join(cmd) + " >/dev/null 2>&1"
        ev["violations"].append(v)
        ev["nviol"] += 1
    lines = open(trace).read().splitlines()
    accepted, hw, states = validate_trace(trace, job["cfg"], job["module"], scratch)
    ev["states"] += states
    ev["transitions"] += states
    rec.update(accepted=accepted, high_water=hw, trace_lines=len(lines), states=states)
    ev["checked"]["trace events validated"] = ev["checked"].get("trace events validated", 0) + (len(lines) if accepted else max(hw - 1, 0))
    if accepted:
        ev["traces_validated"] += s.get("rounds", 0)
        ev["go_evaluations"] += s.get("rounds", 0)
        ev["go_distinct"] += s.get("rounds", 0)
        if len(ev["samples"]) < 3:
            ev["samples"].append({"mode": "recorded trace (first events)", "events": [json.loads(x) for x in lines[:25]]})
        return
    # rejected: cut out the round that contains the first event no one-at-a-time order explains
    start = 0
    for i in range(min(hw, len(lines)) - 1, -1, -1):
        if json.loads(lines[i]).get("event") == "reset" and i < hw - 1:
            start = i + 1
            break
    end = len(lines)
    for i in range(hw - 1, len(lines)):
        if json.loads(lines[i]).get("event") == "reset":
            end = i + 1
            break
    bad = lines[start:end]
    os.makedirs(os.path.join(EVID, "replays"), exist_ok=True)
    tpath = os.path.join(EVID, "replays", "%s-trace-%d.ndjson" % (prop, seed))
    open(tpath, "w").write("\n".join(bad) + "\n")
    v = dict(property=prop, kind=job.get("kind", ""), n=0, tool="tlc-trace",
             why=(job.get("why") or "a recorded parallel execution equals no one-at-a-time order of its requests") +
                 ": event %d of the round (%s) cannot be explained" % (hw - start, lines[hw - 1] if 0 < hw <= len(lines) else "?"),
             steps=[json.loads(x) for x in bad], hash="trace-%d-%d" % (seed, start), trace_file=tpath, cfg=job["cfg"], module=job["module"])
    v["class"] = "rejected-trace"
    ev["violations"].append(v)
    ev["nviol"] += 1


def confirm(v, scratch):
    if v.get("class") == "rejected-trace":
        # the recorded execution itself is the evidence: TLC must reject it again
        accepted, _, _ = validate_trace(v["trace_file"], v["cfg"], v["module"], scratch)
        return not accepted
    """Re-run a violation's steps once in a fresh worker; True if it fails again."""
    if v.get("confirm_cmd"):
        for _ in range(3):
            p = subprocess.run(v["confirm_cmd"], shell=True, cwd=OUT, env=ENV, capture_output=True, text=True)
            if p.returncode == 1:
                return True
        return False
    if "steps" not in v:
        return True
    path = os.path.join(scratch, "confirm-%s.json" % v["hash"])
    json.dump(v, open(path, "w"))
    tool = v.get("tool", "replay")
    if tool != "replay":
        # a crash that needs a particular goroutine timing is re-run many times (each run is a few ms)
        for _ in range(60 if v.get("class") == "crash" else 4):
            p = subprocess.run([os.path.join(BIN, tool), "-replayfile", path], capture_output=True, text=True, env=ENV)
            if p.returncode == 1 or (v.get("class") == "crash" and p.returncode not in (0, 1)):
                return True
        return False
    # the code under test may itself be nondeterministic (e.g. Go map iteration order): a violation counts
    # as reproduced if one of a few fresh re-runs fails again
    for _ in range(8):
        p = subprocess.run([os.path.join(BIN, "replay"), "-replayfile", path], capture_output=True, text=True, env=ENV)
        if p.returncode == 1:
            return True
    return False


def main():
    ap = argparse.ArgumentParser()
    ap.add_argument("prop")
    ap.add_argument("--tier", default=os.environ.get("VERIF_TIER", "quick"))
    ap.add_argument("--replay")
    args = ap.parse_args()
    prop = args.prop
    tier = args.tier
    seed = int(os.environ.get("VERIF_SEED", "1"))
    t0 = time.time()
    scratch = tempfile.mkdtemp(prefix="verif-%s-" % prop, dir=os.environ.get("VERIF_SCRATCH", "/tmp"))
    rc = 0
    try:
        build()
        if args.replay:
            tool = json.load(open(args.replay)).get("tool", "replay")
            p = subprocess.run([os.path.join(BIN, tool), "-replayfile", args.replay, "-v"], env=ENV)
            if p.returncode != 0:
                print("VIOLATION property=%s replay=%s" % (prop, args.replay))
            sys.exit(p.returncode)
        jobs = plan.jobs(prop, tier)
        if os.environ.get("VERIF_ONLY"):      # debugging aid (never set by the registered commands): only the jobs of these configurations
            jobs = [j for j in jobs if j["cfg"] in os.environ["VERIF_ONLY"].split(",")]
        if not jobs:
            raise Infra("no plan for %s" % prop)
        def fresh():
            return dict(states=0, transitions=0, behaviours=0, completed=0, desynced=0, distinct_behaviours=0, checked={},
                        violations=[], nviol=0, samples=[], jobs=[], traces_validated=0, go_evaluations=0, go_distinct=0)
        ev = fresh()

        def one_job(job):
            part = fresh()
            run_job(job, prop, tier, seed, scratch, part)
            return part
        with cf.ThreadPoolExecutor(max_workers=int(os.environ.get("VERIF_JOBS", "3"))) as ex:
            parts = list(ex.map(one_job, jobs))
        for part in parts:
            for k in ("states", "transitions", "behaviours", "completed", "desynced", "distinct_behaviours", "nviol",
                      "traces_validated", "go_evaluations", "go_distinct"):
                ev[k] += part[k]
            for a, b in part["checked"].items():
                ev["checked"][a] = ev["checked"].get(a, 0) + b
            ev["violations"].extend(part["violations"])
            ev["jobs"].extend(part["jobs"])
            if len(ev["samples"]) < 3:
                ev["samples"].extend(part["samples"][:1])
        # ---- verdict ----
        known = findings.load(ROOT)
        hits = {}
        reported = []
        seen_hashes = set()
        for v in ev["violations"]:
            if v.get("hash") in seen_hashes:
                continue
            seen_hashes.add(v.get("hash"))
            f = findings.match(known, prop, v)
            if f:
                hits[f["id"]] = hits.get(f["id"], 0) + 1
                continue
            reported.append(v)
        unexplained_beyond_kept = ev["nviol"] - len(ev["violations"])
        for f in known:
            if f["property"] == prop and f["status"] == "open" and (f["id"] in hits or findings.still_fails(f, ROOT, ENV, BIN)):
                print("KNOWN-FINDING: property=%s %s" % (prop, f["what"]))
        os.makedirs(os.path.join(EVID, "replays"), exist_ok=True)
        confirmed = 0
        unconfirmed = 0
        classes = {}
        for v in sorted(reported, key=lambda x: len(x.get("steps") or [])):
            cls = (v.get("kind"), v.get("class"), re.sub(r"\d+", "N", v.get("why", "")))
            classes[cls] = classes.get(cls, 0) + 1
            if classes[cls] > 2:      # keep the output readable: at most two replays per class of failure
                confirmed += 1
                continue
            try:
                reproduced = confirm(v, scratch)
            except Infra as ex:
                print("confirmation could not run: %s" % str(ex)[:300])
                reproduced = False
            if not reproduced:
                print("UNCONFIRMED (not reproduced in a fresh worker): %s" % v.get("why"))
                os.makedirs(os.path.join(EVID, "unconfirmed"), exist_ok=True)
                json.dump(v, open(os.path.join(EVID, "unconfirmed", "%s-%s.json" % (prop, v.get("hash", "x"))), "w"), indent=1)
                unconfirmed += 1
                continue
            confirmed += 1
            path = os.path.join(EVID, "replays", "%s-%s.json" % (prop, v.get("hash", "x")))
            json.dump(v, open(path, "w"), indent=1)
            print("VIOLATION property=%s replay=%s" % (prop, path))
            print("  why: %s" % v.get("why"))
            rc = 1
        if confirmed > 0:
            rc = 1          # a violation reproduced on the real code is the verdict, whatever else stayed unconfirmed
        elif unconfirmed > 3 + (ev["behaviours"] + ev["go_evaluations"]) // 500:
            # observations that do not reproduce are never a verdict; a few of them (a deadline missed on a loaded machine)
            # are recorded in the evidence and under evidence/unconfirmed, many of them mean the run decided nothing
            print("too many observations did not reproduce (%d): nothing decided" % unconfirmed)
            rc = max(rc, 2)
        total_beh = ev["behaviours"] + ev["go_evaluations"]
        if ev["behaviours"] and ev["desynced"] > ev["behaviours"] // 2 and rc == 0:
            print("most behaviours desynchronised - nothing decided: %s" % json.dumps([j.get("desync_why") for j in ev["jobs"]]))
            rc = 2
        coverage = dict(
            states=ev["states"], transitions=ev["transitions"],
            traces_validated_against_impl=ev["completed"] + ev["traces_validated"],
            evaluations=total_beh, distinct_nontrivial=ev["distinct_behaviours"] + ev.get("go_distinct", 0),
            rule=plan.rule(prop) or "behaviours are generated by TLC from the specification (every transition of the exhaustive graphs with one path to its "
                 "source state, and seeded simulated walks) or by seeded drivers whose traces TLC validates; a behaviour is counted as "
                 "distinct by the hash of its action sequence; behaviours with fewer than two actions are not counted",
            samples=ev["samples"][:3] or [{"note": "model check only in this run"}],
            behaviours_replayed=ev["behaviours"], replay_completed=ev["completed"], desynced=ev["desynced"],
            oracle_evaluations=ev["checked"], known_finding_hits=hits, unconfirmed_observations=unconfirmed, violations_beyond_kept=unexplained_beyond_kept,
            per_job=ev["jobs"],
            checker_cmd="tlc (TLC2 v1.8.0) on spec/*.tla with the cfg files named in per_job; harness/cmd/* built with -tags verif against /repo",
            trusted_base=["TLC", "the Go toolchain", "protobuf, encoding/json", "harness/fakemongo, harness/fakemqtt (where used)"],
            exhaustive=False)
        evidence = dict(property_id=prop, tier=tier, seed=seed, level=plan.level(prop), coverage=coverage,
                        assumptions=plan.assumptions(prop), wall_s=round(time.time() - t0, 1), violations=confirmed)
        os.makedirs(EVID, exist_ok=True)
        json.dump(evidence, open(os.path.join(EVID, prop + ".json"), "w"), indent=1)
        print("%s %s: states=%d transitions=%d behaviours=%d completed=%d desynced=%d go_evals=%d traces=%d violations=%d wall=%.0fs" % (
            prop, tier, ev["states"], ev["transitions"], ev["behaviours"], ev["completed"], ev["desynced"], ev["go_evaluations"],
            ev["traces_validated"], confirmed, time.time() - t0))
    except Infra as e:
        print("INFRASTRUCTURE: %s" % e)
        rc = 2
    finally:
        shutil.rmtree(scratch, ignore_errors=True)
    sys.exit(rc)


if __name__ == "__main__":
    main()
