"""Known findings: genuine defects of orda-io/orda that were recorded rather than repaired.

known_findings.json is committed and never written at run time. Each open entry has a matcher: a
predicate over a violation record, specific to the failing input / call site / history of that
finding, so that a different violation of the same property is still reported."""
import json
import os
import re
import subprocess


def load(root):
    p = os.path.join(root, "known_findings.json")
    if not os.path.exists(p):
        return []
    return json.load(open(p))


def _acts(v):
    return v.get("steps") or []


MATCHERS = {}


def matcher(name):
    def deco(fn):
        MATCHERS[name] = fn
        return fn
    return deco


@matcher("update_fault_after_insert")
def _update_fault_after_insert(v, f):
    """The behaviour contains a storage fault placed at the update of the datatype document of a handler run
    that had already inserted operation documents: everything that goes wrong afterwards on that datatype
    (operations beyond the recorded end, refused retries, clients that cannot settle) is this finding."""
    return any(a.get("name") == "serveFault" and a.get("m") == "update Datatypes" and a.get("ins") for a in (v.get("steps") or []))


def match(known, prop, v):
    for f in known:
        if f.get("status") != "open" or f.get("property") != prop:
            continue
        fn = MATCHERS.get(f.get("matcher"))
        if fn and fn(v, f):
            return f
    return None


def still_fails(f, root, env, bindir=None):
    """An open finding prints its KNOWN-FINDING line while its committed minimal replay still fails."""
    rp = f.get("replay")
    if not rp:
        return True
    tool = "replay"
    try:
        tool = json.load(open(os.path.join(root, rp))).get("tool", "replay")
    except Exception:
        pass
    bindir = bindir or os.path.join(root, "bin")
    cmd = f.get("replay_cmd") or ("bin/" + tool + " -replayfile " + rp)
    cmd = cmd.replace("bin/", bindir + "/", 1).replace(" findings/", " " + os.path.join(root, "findings") + "/")
    for _ in range(4):
        p = subprocess.run(cmd, shell=True, cwd=root, env=env, capture_output=True, text=True)
        if p.returncode != 0:
            return True
    return False
