#!/bin/bash
# usage: seed_eval.sh <patch.diff> <tier> <prop> [<prop>...]
# Runs checks against a seeded change WITHOUT touching /repo or /verif/evidence: the change is applied to a
# scratch worktree of /repo's HEAD (outside /repo and /verif, removed afterwards) and the checks are pointed
# at it with VERIF_REPO / VERIF_OUT. (lib/seed_run.sh does the same on /repo itself: apply, check, revert.)
PATCH=$(readlink -f "$1"); TIER=$2; shift 2
S=$(mktemp -d /tmp/seedeval.XXXXXX)
git -C /repo worktree add --detach "$S/repo" HEAD >/dev/null 2>&1 || { echo "cannot create worktree"; exit 2; }
cleanup() { git -C /repo worktree remove --force "$S/repo" >/dev/null 2>&1; rm -rf "$S"; }
trap cleanup EXIT
git -C "$S/repo" apply "$PATCH" || { echo "patch does not apply"; exit 2; }
# a private copy of the framework, so that the evaluation is not disturbed by edits made meanwhile
rsync -a --exclude bin --exclude evidence --exclude .git --exclude seeded /verif/ "$S/verif/"
cd "$S/verif"
for p in "$@"; do
  out=$(VERIF_REPO="$S/repo" VERIF_OUT="$S/out" VERIF_SCRATCH="$S" ./check $p --tier $TIER 2>&1); rc=$?
  echo "[$p rc=$rc] $(echo "$out" | grep -c '^VIOLATION') violation lines; $(echo "$out" | grep -E '^  why' | sort | uniq -c | sort -rn | head -3 | tr '\n' ';' | cut -c1-700)"
  echo "   $(echo "$out" | tail -1 | cut -c1-300)"
done
