#!/bin/bash
# usage: seed_run.sh <patch.diff> <tier> <prop> [<prop>...]   applies the seeded change to /repo, runs the checks, reverts.
PATCH=$1; TIER=$2; shift 2
cd /verif
git -C /repo diff --quiet || { echo "/repo has uncommitted changes"; exit 2; }
git -C /repo apply "$PATCH" || { echo "patch does not apply"; exit 2; }
trap 'git -C /repo checkout -- . ; rm -rf /verif/evidence/replays /verif/evidence/unconfirmed' EXIT
for p in "$@"; do
  out=$(./check $p --tier $TIER 2>&1); rc=$?
  echo "[$p rc=$rc] $(echo "$out" | grep -c '^VIOLATION') violation lines; $(echo "$out" | grep -E '^  why' | sort | uniq -c | head -3 | tr '\n' ';')"
  echo "$out" | tail -1
done
