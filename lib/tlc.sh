#!/bin/bash
# usage: tlc.sh <cfg> <module.tla> [extra tlc args]   (run from anywhere; uses a scratch copy of spec/)
. "$(dirname "$0")/env.sh"
CFG=$1; MOD=$2; shift 2
T=$(mktemp -d /tmp/verif-tlc.XXXXXX)
cp "$VERIF_ROOT"/spec/*.tla "$VERIF_ROOT"/spec/*.cfg "$T"/
cd "$T"
timeout ${TLC_TIMEOUT:-900} tlc -workers ${TLC_WORKERS:-16} -metadir "$T/md" -config "$CFG" "$@" "$MOD"
rc=$?
cd /; rm -rf "$T"
exit $rc
