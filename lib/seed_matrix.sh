#!/bin/bash
# usage: seed_matrix.sh [tier] [id-prefix]
# Regression matrix of the framework: every seeded change under seeded/ is evaluated (lib/seed_eval.sh: scratch worktree,
# nothing in /repo or /verif/evidence is touched) against the checks its meta.json says catch it. Prints one line per
# (change, check): CAUGHT / MISSED. Takes hours at the quick tier; meant for background runs.
TIER=${1:-quick}; PFX=$2
cd "$(dirname "$0")/.."
for d in seeded/${PFX}*/; do
  id=$(basename $d)
  props=$(python3 - "$d/meta.json" <<'PY'
import json,sys
m=json.load(open(sys.argv[1]))
print(" ".join(p for p,r in m.get("results",{}).items() if r.lower().startswith("caught")))
PY
)
  [ -z "$props" ] && { echo "$id: no catching check recorded"; continue; }
  out=$(lib/seed_eval.sh $d/patch.diff $TIER $props 2>&1)
  for p in $props; do
    if echo "$out" | grep -q "^\[$p rc=1\]"; then echo "$id $p CAUGHT"; else echo "$id $p MISSED: $(echo "$out" | grep "^\[$p " | cut -c1-160)"; fi
  done
done
