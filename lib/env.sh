# common environment for every command of the framework (offline Go, TLC)
export GOFLAGS=-mod=mod GOPROXY=off GOSUMDB=off GOTOOLCHAIN=local CGO_ENABLED=0
export VERIF_ROOT="$(cd "$(dirname "${BASH_SOURCE[0]}")/.." && pwd)"
export TLA_JAR=/opt/veriftools/tla/tla2tools.jar
