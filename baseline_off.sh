#!/bin/bash
# Runs the repository's stable baseline with the verif guard OFF (no -tags), offline, and
# compares with /root/.vp/BASELINE.json's stable_pass list (exit 1 if a stable test does not pass).
export GOFLAGS=-mod=mod GOPROXY=off GOSUMDB=off GOTOOLCHAIN=local
out=$(mktemp)
for m in . client server; do
  (cd /repo/$m && go test -mod=mod -json -vet=off -count=1 -timeout 25m ./... ) >> "$out" 2>/dev/null
done
python3 - "$out" <<'PY'
import json,sys
passed=set()
for l in open(sys.argv[1]):
    try: e=json.loads(l)
    except Exception: continue
    if e.get("Action")=="pass" and e.get("Test"): passed.add(e["Package"]+"::"+e["Test"])
base=json.load(open("/root/.vp/BASELINE.json"))["stable_pass"]
missing=[t for t in base if t not in passed]
print("baseline stable tests: %d, passing with guard off: %d"%(len(base),len(base)-len(missing)))
for t in missing: print("NOT PASSING:",t)
sys.exit(1 if missing else 0)
PY
rc=$?; rm -f "$out"; exit $rc
