// Package spec holds the JSON shapes shared between the TLA+ specifications and the harness:
// actions and observations printed by TLC (S->I) and trace events written by the harness (I->S).
package spec

import "encoding/json"

// Call is one public API call chosen by the specification.
type Call struct {
	Op   string            `json:"op"`
	Pos  int               `json:"pos"`
	N    int               `json:"n"`
	Vals []json.RawMessage `json:"vals"`
	K    string            `json:"k"`
	V    json.RawMessage   `json:"v"`
	D    int               `json:"d"`
	Err  string            `json:"err"` // "", "must" (an error is required), "free"
	// document calls
	Path []json.RawMessage `json:"path"` // path from the root to the container the call is made on
	Tgt  json.RawMessage   `json:"tgt"`  // patch target
	Dead bool              `json:"dead"` // the call is made on a container that was removed (a handle obtained earlier)
}

// Act is one action of OrdaReplica.
type Act struct {
	Name   string            `json:"name"`
	R      int               `json:"r"`
	Call   *Call             `json:"call"`
	Calls  []Call            `json:"calls"`
	Commit bool              `json:"commit"`
	Ret    json.RawMessage   `json:"ret"`
	Pret   json.RawMessage   `json:"pret"`
	Rets   []json.RawMessage `json:"rets"`
	Op     *Op               `json:"op"`
	Ops    []Op              `json:"ops"`
	Own    bool              `json:"own"`
	N      int               `json:"n"`
	Keep   int               `json:"keep"`
	T1     string            `json:"t1"`
}

// Op is the identifying part of an operation as the specification emits it.
type Op struct {
	Type    string            `json:"type"`
	Ts      []int             `json:"ts"` // lamport, client, delimiter
	Seq     int               `json:"seq"`
	N       int               `json:"n"`
	Target  []int             `json:"target"`
	Targets [][]int           `json:"targets"`
	Vals    []json.RawMessage `json:"vals"`
	P       []int             `json:"P"`
}

// Obs is the projection of the specification's state that the replay compares.
type Obs struct {
	Views  []json.RawMessage `json:"views"`
	Sizes  []int             `json:"sizes"`
	Clock  []int             `json:"clock"`
	Seq    []int             `json:"seq"`
	Nout   []int             `json:"nout"`
	Nlog   int               `json:"nlog"`
	Pulled []int             `json:"pulled"`
	Plain  json.RawMessage   `json:"plain"`
	Same   [][]bool          `json:"same"`
	Pend   [][]Op            `json:"pend"`
}

// Edge is one line of the exhaustive dump: a path (hist) ending in the dumped transition, and
// the observation of the state it leads to.
type Edge struct {
	Hist []Act `json:"hist"`
	Obs  Obs   `json:"obs"`
}

// Step is one line of a simulated walk.
type Step struct {
	T      int             `json:"t"`
	L      int             `json:"l"`
	Act    Act             `json:"act"`
	Pact   json.RawMessage `json:"pact"`
	RawAct json.RawMessage `json:"-"`
	Obs    Obs             `json:"obs"`
}
