// Package fakemongo: minimal in-memory MongoDB wire-protocol server (probe).
package fakemongo

import (
	"bytes"
	"encoding/binary"
	"fmt"
	"io"
	"net"
	"sort"
	"sync"
	"time"

	"go.mongodb.org/mongo-driver/bson"
	"go.mongodb.org/mongo-driver/bson/primitive"
	"go.mongodb.org/mongo-driver/x/bsonx/bsoncore"
	"go.mongodb.org/mongo-driver/x/mongo/driver/wiremessage"
)

type Server struct {
	mu      sync.Mutex
	ln      net.Listener
	colls   map[string][]bson.D // "db.coll" -> docs
	Log     []string            // data commands in the order they took effect: "name db.coll"
	reqID   int32
	failKey string
	failN   int
	// fault plan: the failAt-th data command from now fails (mode "error") or is never answered and
	// every later command neither (mode "dead": the database is gone until Revive)
	failAt   int
	failMode string
	failName string
	failColl string
	failOcc  int
	dead     bool
	ncmd     int
	lastCmd  time.Time
	// Gate, when set, is called (without the lock) before a data command takes effect; it may block.
	Gate func(name, coll string)
	// After, when set, is called (without the lock) after a data command took effect and before its answer is sent
	After func(name, coll string)
	// OnWrite, if set, is called under the store's mutex for every document an insert stored and every document an
	// update or replacement produced: the order of the calls is the order in which the store applied the writes
	OnWrite func(op, ns string, doc bson.D)
	conns   map[net.Conn]bool
}

// IsData tells whether a command counts as a database command of a request (not handshake / housekeeping).
func IsData(name string) bool {
	switch name {
	case "isMaster", "ismaster", "hello", "saslStart", "saslContinue", "ping", "endSessions", "killCursors":
		return false
	}
	return true
}

// FailAt arms the fault plan: the k-th data command from now (k >= 1) fails in the given mode.
func (s *Server) FailAt(k int, mode string) {
	s.mu.Lock()
	s.failAt, s.failMode, s.ncmd = k, mode, 0
	s.mu.Unlock()
}

// FailNamed arms the fault plan by name: the occ-th data command `name` on collection `coll` from now fails in
// the given mode, wherever it stands among the other commands of the request.
func (s *Server) FailNamed(name, coll string, occ int, mode string) {
	s.mu.Lock()
	s.failName, s.failColl, s.failOcc, s.failMode, s.ncmd, s.failAt = name, coll, occ, mode, 0, 0
	s.mu.Unlock()
}

// Disarm clears the fault plan and returns how many data commands were counted since FailAt.
func (s *Server) Disarm() int {
	s.mu.Lock()
	defer s.mu.Unlock()
	n := s.ncmd
	s.failAt, s.failMode, s.failOcc, s.failName, s.failColl = 0, "", 0, "", ""
	return n
}

// Revive makes a dead database answer again (existing connections were closed).
func (s *Server) Revive() { s.mu.Lock(); s.dead = false; s.mu.Unlock() }

// WaitIdle blocks until no data command has arrived for the idle duration (background goroutines of
// earlier requests have finished their database work), at most max.
func (s *Server) WaitIdle(idle, max time.Duration) {
	deadline := time.Now().Add(max)
	for time.Now().Before(deadline) {
		s.mu.Lock()
		since := time.Since(s.lastCmd)
		s.mu.Unlock()
		if since >= idle {
			return
		}
		time.Sleep(idle / 4)
	}
}

// LogSince returns the data commands logged from position n on.
func (s *Server) LogSince(n int) []string {
	s.mu.Lock()
	defer s.mu.Unlock()
	if n > len(s.Log) {
		return nil
	}
	return append([]string{}, s.Log[n:]...)
}

// Count returns the number of data commands handled so far.
func (s *Server) Count() int { s.mu.Lock(); defer s.mu.Unlock(); return len(s.Log) }

// DumpAll returns a deep copy of every collection of the database.
func (s *Server) DumpAll(db string) map[string][]bson.D {
	s.mu.Lock()
	defer s.mu.Unlock()
	out := map[string][]bson.D{}
	for k, v := range s.colls {
		if len(k) > len(db)+1 && k[:len(db)+1] == db+"." {
			cp := make([]bson.D, len(v))
			for i, d := range v {
				b, _ := bson.Marshal(d)
				var c bson.D
				_ = bson.Unmarshal(b, &c)
				cp[i] = c
			}
			out[k[len(db)+1:]] = cp
		}
	}
	return out
}

// FailNext makes the next n commands whose name (or "name:collection") equals key fail.
func (s *Server) FailNext(key string, n int) { s.mu.Lock(); s.failKey, s.failN = key, n; s.mu.Unlock() }

func New() (*Server, error) {
	ln, err := net.Listen("tcp", "127.0.0.1:0")
	if err != nil {
		return nil, err
	}
	s := &Server{ln: ln, colls: map[string][]bson.D{}, conns: map[net.Conn]bool{}}
	go s.accept()
	return s, nil
}

func (s *Server) Addr() string { return s.ln.Addr().String() }

func (s *Server) accept() {
	for {
		c, err := s.ln.Accept()
		if err != nil {
			return
		}
		go s.serve(c)
	}
}

func (s *Server) serve(c net.Conn) {
	s.mu.Lock()
	s.conns[c] = true
	s.mu.Unlock()
	defer func() {
		s.mu.Lock()
		delete(s.conns, c)
		s.mu.Unlock()
		c.Close()
	}()
	for {
		var hdr [16]byte
		if _, err := io.ReadFull(c, hdr[:]); err != nil {
			return
		}
		length := int32(binary.LittleEndian.Uint32(hdr[0:4]))
		reqID := int32(binary.LittleEndian.Uint32(hdr[4:8]))
		opcode := wiremessage.OpCode(binary.LittleEndian.Uint32(hdr[12:16]))
		body := make([]byte, length-16)
		if _, err := io.ReadFull(c, body); err != nil {
			return
		}
		switch opcode {
		case wiremessage.OpQuery:
			_, rem, _ := wiremessage.ReadQueryFlags(body)
			_, rem, _ = wiremessage.ReadQueryFullCollectionName(rem)
			_, rem, _ = wiremessage.ReadQueryNumberToSkip(rem)
			_, rem, _ = wiremessage.ReadQueryNumberToReturn(rem)
			q, _, _ := wiremessage.ReadQueryQuery(rem)
			var cmd bson.D
			_ = bson.Unmarshal(q, &cmd)
			resp := s.handle("admin", cmd, nil)
			rb, _ := bson.Marshal(resp)
			var out []byte
			idx, out := wiremessage.AppendHeaderStart(out, s.nextID(), reqID, wiremessage.OpReply)
			out = wiremessage.AppendReplyFlags(out, 0)
			out = wiremessage.AppendReplyCursorID(out, 0)
			out = wiremessage.AppendReplyStartingFrom(out, 0)
			out = wiremessage.AppendReplyNumberReturned(out, 1)
			out = append(out, rb...)
			out = bsoncore.UpdateLength(out, idx, int32(len(out)))
			c.Write(out)
		case wiremessage.OpMsg:
			_, rem, _ := wiremessage.ReadMsgFlags(body)
			var cmd bson.D
			seqs := map[string][]bson.D{}
			for len(rem) > 0 {
				var st wiremessage.SectionType
				st, rem, _ = wiremessage.ReadMsgSectionType(rem)
				if st == wiremessage.SingleDocument {
					var d bsoncore.Document
					d, rem, _ = wiremessage.ReadMsgSectionSingleDocument(rem)
					_ = bson.Unmarshal(d, &cmd)
				} else {
					var id string
					var docs []bsoncore.Document
					id, docs, rem, _ = wiremessage.ReadMsgSectionDocumentSequence(rem)
					for _, d := range docs {
						var x bson.D
						_ = bson.Unmarshal(d, &x)
						seqs[id] = append(seqs[id], x)
					}
				}
			}
			db := ""
			for _, e := range cmd {
				if e.Key == "$db" {
					db, _ = e.Value.(string)
				}
			}
			resp := s.handle(db, cmd, seqs)
			if len(resp) == 1 && resp[0].Key == "$dead" {
				return // the database died: the connection drops without an answer
			}
			if a := s.After; a != nil && len(cmd) > 0 && IsData(cmd[0].Key) {
				coll, _ := cmd[0].Value.(string)
				a(cmd[0].Key, coll) // the command has taken effect; its answer may be held back
			}
			rb, err := bson.Marshal(resp)
			if err != nil {
				panic(err)
			}
			var out []byte
			idx, out := wiremessage.AppendHeaderStart(out, s.nextID(), reqID, wiremessage.OpMsg)
			out = wiremessage.AppendMsgFlags(out, 0)
			out = wiremessage.AppendMsgSectionType(out, wiremessage.SingleDocument)
			out = append(out, rb...)
			out = bsoncore.UpdateLength(out, idx, int32(len(out)))
			c.Write(out)
		default:
			return
		}
	}
}

func (s *Server) nextID() int32 { s.mu.Lock(); defer s.mu.Unlock(); s.reqID++; return s.reqID }

func get(d bson.D, k string) (interface{}, bool) {
	for _, e := range d {
		if e.Key == k {
			return e.Value, true
		}
	}
	return nil, false
}

func set(d bson.D, k string, v interface{}) bson.D {
	for i, e := range d {
		if e.Key == k {
			d[i].Value = v
			return d
		}
	}
	return append(d, bson.E{Key: k, Value: v})
}

func toD(v interface{}) bson.D {
	switch x := v.(type) {
	case bson.D:
		return x
	}
	return nil
}

func toA(v interface{}) []interface{} {
	switch x := v.(type) {
	case bson.A:
		return x
	}
	return nil
}

func num(v interface{}) (float64, bool) {
	switch x := v.(type) {
	case int32:
		return float64(x), true
	case int64:
		return float64(x), true
	case float64:
		return x, true
	case int:
		return float64(x), true
	}
	return 0, false
}

func cmp(a, b interface{}) int {
	if x, ok := num(a); ok {
		if y, ok := num(b); ok {
			switch {
			case x < y:
				return -1
			case x > y:
				return 1
			}
			return 0
		}
	}
	if x, ok := a.(string); ok {
		if y, ok := b.(string); ok {
			return bytes.Compare([]byte(x), []byte(y))
		}
	}
	ab, _ := bson.Marshal(bson.D{{Key: "v", Value: a}})
	bb, _ := bson.Marshal(bson.D{{Key: "v", Value: b}})
	return bytes.Compare(ab, bb)
}

func match(doc, filter bson.D) bool {
	for _, f := range filter {
		v, ok := get(doc, f.Key)
		if ops := toD(f.Value); ops != nil && len(ops) > 0 && ops[0].Key[0] == '$' {
			for _, o := range ops {
				switch o.Key {
				case "$gte":
					if !ok || cmp(v, o.Value) < 0 {
						return false
					}
				case "$lte":
					if !ok || cmp(v, o.Value) > 0 {
						return false
					}
				case "$exists":
					if ok != o.Value.(bool) {
						return false
					}
				default:
					panic("unsupported filter op " + o.Key)
				}
			}
			continue
		}
		if !ok || cmp(v, f.Value) != 0 {
			return false
		}
	}
	return true
}

func cursor(ns string, docs []bson.D) bson.D {
	arr := bson.A{}
	for _, d := range docs {
		arr = append(arr, d)
	}
	return bson.D{{Key: "cursor", Value: bson.D{{Key: "firstBatch", Value: arr}, {Key: "id", Value: int64(0)}, {Key: "ns", Value: ns}}}, {Key: "ok", Value: 1.0}}
}

func applyUpdate(doc bson.D, u bson.D, isInsert bool) bson.D {
	if len(u) > 0 && u[0].Key[0] != '$' { // replacement
		id, _ := get(doc, "_id")
		nd := bson.D{{Key: "_id", Value: id}}
		for _, e := range u {
			if e.Key != "_id" {
				nd = append(nd, e)
			}
		}
		return nd
	}
	nd := append(bson.D{}, doc...)
	for _, op := range u {
		switch op.Key {
		case "$set":
			for _, e := range toD(op.Value) {
				nd = set(nd, e.Key, e.Value)
			}
		case "$inc":
			for _, e := range toD(op.Value) {
				cur, _ := get(nd, e.Key)
				c, _ := num(cur)
				d, _ := num(e.Value)
				nd = set(nd, e.Key, int32(c+d))
			}
		case "$currentDate":
			for _, e := range toD(op.Value) {
				nd = set(nd, e.Key, primitive.NewDateTimeFromTime(time.Now()))
			}
		default:
			panic("unsupported update op " + op.Key)
		}
	}
	return nd
}

// errDead is returned by handle when the command must not be answered.
var errDead = bson.D{{Key: "$dead", Value: true}}

func (s *Server) handle(db string, cmd bson.D, seqs map[string][]bson.D) bson.D {
	name := cmd[0].Key
	coll, _ := cmd[0].Value.(string)
	if g := s.Gate; g != nil && IsData(name) {
		g(name, coll)
	}
	s.mu.Lock()
	defer s.mu.Unlock()
	ok := bson.D{{Key: "ok", Value: 1.0}}
	ns := db + "." + coll
	if IsData(name) {
		s.lastCmd = time.Now()
		if s.dead {
			s.Log = append(s.Log, fmt.Sprintf("DEAD %s %s", name, ns))
			return errDead
		}
		s.ncmd++
		named := false
		if s.failOcc > 0 && name == s.failName && coll == s.failColl {
			s.failOcc--
			named = s.failOcc == 0
		}
		if named || (s.failAt > 0 && s.ncmd == s.failAt) {
			if s.failMode == "dead" {
				s.dead = true
				s.Log = append(s.Log, fmt.Sprintf("DEAD %s %s", name, ns))
				return errDead
			}
			s.Log = append(s.Log, fmt.Sprintf("FAILED %s %s", name, ns))
			return bson.D{{Key: "ok", Value: 0.0}, {Key: "errmsg", Value: "injected failure"}, {Key: "code", Value: int32(96)}, {Key: "codeName", Value: "OperationFailed"}}
		}
		s.Log = append(s.Log, fmt.Sprintf("%s %s", name, ns))
	}
	if s.failN > 0 && (s.failKey == name || s.failKey == name+":"+coll) {
		s.failN--
		return bson.D{{Key: "ok", Value: 0.0}, {Key: "errmsg", Value: "injected failure"}, {Key: "code", Value: int32(11600)}, {Key: "codeName", Value: "InterruptedAtShutdown"}}
	}
	switch name {
	case "isMaster", "ismaster", "hello":
		return bson.D{{Key: "ismaster", Value: true}, {Key: "isWritablePrimary", Value: true}, {Key: "helloOk", Value: true},
			{Key: "maxBsonObjectSize", Value: int32(16777216)}, {Key: "maxMessageSizeBytes", Value: int32(48000000)},
			{Key: "maxWriteBatchSize", Value: int32(100000)}, {Key: "localTime", Value: primitive.NewDateTimeFromTime(time.Now())},
			{Key: "logicalSessionTimeoutMinutes", Value: int32(30)}, {Key: "connectionId", Value: int32(1)},
			{Key: "minWireVersion", Value: int32(0)}, {Key: "maxWireVersion", Value: int32(13)}, {Key: "readOnly", Value: false},
			{Key: "saslSupportedMechs", Value: bson.A{"PLAIN"}}, {Key: "ok", Value: 1.0}}
	case "saslStart", "saslContinue":
		return bson.D{{Key: "conversationId", Value: int32(1)}, {Key: "done", Value: true}, {Key: "payload", Value: primitive.Binary{}}, {Key: "ok", Value: 1.0}}
	case "ping", "endSessions", "killCursors", "createIndexes", "commitTransaction", "abortTransaction":
		return ok
	case "listCollections":
		var docs []bson.D
		f := bson.D{}
		if fv, ok := get(cmd, "filter"); ok {
			f = toD(fv)
		}
		var names []string
		for k := range s.colls {
			if len(k) > len(db)+1 && k[:len(db)+1] == db+"." {
				names = append(names, k[len(db)+1:])
			}
		}
		sort.Strings(names)
		for _, n := range names {
			d := bson.D{{Key: "name", Value: n}, {Key: "type", Value: "collection"}}
			if match(d, f) {
				docs = append(docs, d)
			}
		}
		return cursor(db+".$cmd.listCollections", docs)
	case "drop":
		delete(s.colls, ns)
		return ok
	case "insert":
		docs := seqs["documents"]
		if dv, ok := get(cmd, "documents"); ok {
			for _, x := range toA(dv) {
				docs = append(docs, toD(x))
			}
		}
		n := 0
		var werrs bson.A
		for i, d := range docs {
			id, _ := get(d, "_id")
			dup := false
			for _, e := range s.colls[ns] {
				eid, _ := get(e, "_id")
				if cmp(eid, id) == 0 {
					dup = true
				}
			}
			if dup {
				s.Log = append(s.Log, fmt.Sprintf("DUP insert %s", ns))
				werrs = append(werrs, bson.D{{Key: "index", Value: int32(i)}, {Key: "code", Value: int32(11000)}, {Key: "errmsg", Value: "E11000 duplicate key"}})
				break
			}
			s.colls[ns] = append(s.colls[ns], d)
			n++
			if s.OnWrite != nil {
				s.OnWrite("insert", ns, d)
			}
		}
		if _, ok := s.colls[ns]; !ok {
			s.colls[ns] = nil
		}
		r := bson.D{{Key: "n", Value: int32(n)}, {Key: "ok", Value: 1.0}}
		if werrs != nil {
			r = append(r, bson.E{Key: "writeErrors", Value: werrs})
		}
		return r
	case "delete":
		dels := seqs["deletes"]
		if dv, ok := get(cmd, "deletes"); ok {
			for _, x := range toA(dv) {
				dels = append(dels, toD(x))
			}
		}
		n := 0
		for _, d := range dels {
			q, _ := get(d, "q")
			lim, _ := get(d, "limit")
			l, _ := num(lim)
			var keep []bson.D
			cnt := 0
			for _, e := range s.colls[ns] {
				if match(e, toD(q)) && (l == 0 || cnt < int(l)) {
					cnt++
					continue
				}
				keep = append(keep, e)
			}
			n += cnt
			s.colls[ns] = keep
		}
		return bson.D{{Key: "n", Value: int32(n)}, {Key: "ok", Value: 1.0}}
	case "update":
		ups := seqs["updates"]
		if dv, ok := get(cmd, "updates"); ok {
			for _, x := range toA(dv) {
				ups = append(ups, toD(x))
			}
		}
		n, nm := 0, 0
		var upserted bson.A
		for i, u := range ups {
			q, _ := get(u, "q")
			uv, _ := get(u, "u")
			upsert, _ := get(u, "upsert")
			found := false
			for j, e := range s.colls[ns] {
				if match(e, toD(q)) {
					found = true
					n++
					nd := applyUpdate(e, toD(uv), false)
					a, _ := bson.Marshal(e)
					b, _ := bson.Marshal(nd)
					if !bytes.Equal(a, b) {
						nm++
						s.colls[ns][j] = nd
					}
					if s.OnWrite != nil {
						s.OnWrite("update", ns, nd)
					}
					break
				}
			}
			if !found && upsert == true {
				base := bson.D{}
				for _, f := range toD(q) {
					if sub := toD(f.Value); sub == nil || len(sub) == 0 || sub[0].Key[0] != '$' {
						base = append(base, f)
					}
				}
				if _, ok := get(base, "_id"); !ok {
					base = append(bson.D{{Key: "_id", Value: primitive.NewObjectID()}}, base...)
				}
				nd := applyUpdate(base, toD(uv), true)
				s.colls[ns] = append(s.colls[ns], nd)
				if s.OnWrite != nil {
					s.OnWrite("update", ns, nd)
				}
				id, _ := get(nd, "_id")
				n++
				upserted = append(upserted, bson.D{{Key: "index", Value: int32(i)}, {Key: "_id", Value: id}})
			}
		}
		r := bson.D{{Key: "n", Value: int32(n)}, {Key: "nModified", Value: int32(nm)}, {Key: "ok", Value: 1.0}}
		if upserted != nil {
			r = append(r, bson.E{Key: "upserted", Value: upserted})
		}
		return r
	case "find":
		f := bson.D{}
		if fv, ok := get(cmd, "filter"); ok {
			f = toD(fv)
		}
		var res []bson.D
		for _, e := range s.colls[ns] {
			if match(e, f) {
				res = append(res, e)
			}
		}
		if sv, ok := get(cmd, "sort"); ok {
			sd := toD(sv)
			sort.SliceStable(res, func(i, j int) bool {
				for _, k := range sd {
					a, _ := get(res[i], k.Key)
					b, _ := get(res[j], k.Key)
					dir, _ := num(k.Value)
					if c := cmp(a, b); c != 0 {
						return (c < 0) == (dir > 0)
					}
				}
				return false
			})
		}
		if lv, ok := get(cmd, "limit"); ok {
			if l, _ := num(lv); l > 0 && int(l) < len(res) {
				res = res[:int(l)]
			}
		}
		return cursor(ns, res)
	case "findAndModify":
		// documented semantics: the pre-image is returned unless new: true; null when an upsert inserted and
		// the pre-image was asked for
		q, _ := get(cmd, "query")
		uv, _ := get(cmd, "update")
		upsert, _ := get(cmd, "upsert")
		wantNew, _ := get(cmd, "new")
		for j, e := range s.colls[ns] {
			if match(e, toD(q)) {
				nd := applyUpdate(e, toD(uv), false)
				s.colls[ns][j] = nd
				var ret interface{} = e
				if wantNew == true {
					ret = nd
				}
				return bson.D{{Key: "lastErrorObject", Value: bson.D{{Key: "n", Value: int32(1)}, {Key: "updatedExisting", Value: true}}}, {Key: "value", Value: ret}, {Key: "ok", Value: 1.0}}
			}
		}
		if upsert == true {
			nd := applyUpdate(append(bson.D{}, toD(q)...), toD(uv), true)
			s.colls[ns] = append(s.colls[ns], nd)
			id, _ := get(nd, "_id")
			var ret interface{}
			if wantNew == true {
				ret = nd
			}
			return bson.D{{Key: "lastErrorObject", Value: bson.D{{Key: "n", Value: int32(1)}, {Key: "updatedExisting", Value: false}, {Key: "upserted", Value: id}}}, {Key: "value", Value: ret}, {Key: "ok", Value: 1.0}}
		}
		return bson.D{{Key: "lastErrorObject", Value: bson.D{{Key: "n", Value: int32(0)}, {Key: "updatedExisting", Value: false}}}, {Key: "value", Value: nil}, {Key: "ok", Value: 1.0}}
	}
	return bson.D{{Key: "ok", Value: 0.0}, {Key: "errmsg", Value: "no such command: " + name}, {Key: "code", Value: int32(59)}}
}

func (s *Server) Dump(ns string) []bson.D {
	s.mu.Lock()
	defer s.mu.Unlock()
	return append([]bson.D{}, s.colls[ns]...)
}

// DeleteAll removes every document of a collection (the harness emulating work that never happened).
func (s *Server) DeleteAll(db, coll string) {
	s.mu.Lock()
	delete(s.colls, db+"."+coll)
	s.colls[db+"."+coll] = nil
	s.mu.Unlock()
}

// Close stops the server and drops its connections.
func (s *Server) Close() {
	s.ln.Close()
	s.mu.Lock()
	for c := range s.conns {
		// reset instead of an orderly close: no TIME_WAIT socket is left behind (thousands of
		// short-lived stacks would otherwise exhaust the ephemeral ports)
		if t, ok := c.(*net.TCPConn); ok {
			t.SetLinger(0)
		}
		c.Close()
	}
	s.mu.Unlock()
}
