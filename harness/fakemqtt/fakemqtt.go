// Package fakemqtt: minimal MQTT 3.1.1 broker (QoS0 only) for probing.
package fakemqtt

import (
	"bufio"
	"io"
	"net"
	"sync"
	"time"
)

type Pub struct {
	Topic   string
	Payload []byte
}

// Held is one publish waiting to be forwarded to one subscriber (gated mode).
type Held struct {
	Sub     string // MQTT client id of the subscriber
	Topic   string
	Payload []byte
	conn    net.Conn
	pkt     []byte
}

type Broker struct {
	mu    sync.Mutex
	ln    net.Listener
	subs  map[net.Conn]map[string]bool
	conns map[net.Conn]bool
	ids   map[net.Conn]string
	Pubs  []Pub
	// gated mode: publishes are not forwarded to subscribers until the harness releases them
	gated bool
	held  []*Held
	// SubscribeDelay holds every SUBSCRIBE packet for this long before the subscription is registered and acknowledged
	SubscribeDelay time.Duration
}

// SetGated switches forwarding to subscribers between immediate and held-until-released.
func (b *Broker) SetGated(on bool) {
	b.mu.Lock()
	b.gated = on
	b.mu.Unlock()
}

// SetSubscribeDelay makes the broker slow to register subscriptions.
func (b *Broker) SetSubscribeDelay(d time.Duration) {
	b.mu.Lock()
	b.SubscribeDelay = d
	b.mu.Unlock()
}

// HeldFor returns the publishes held for the subscriber with that MQTT client id, oldest first.
func (b *Broker) HeldFor(sub string) []Held {
	b.mu.Lock()
	defer b.mu.Unlock()
	var out []Held
	for _, h := range b.held {
		if h.Sub == sub {
			out = append(out, *h)
		}
	}
	return out
}

// HeldCount returns the number of held deliveries.
func (b *Broker) HeldCount() int {
	b.mu.Lock()
	defer b.mu.Unlock()
	return len(b.held)
}

// Release forwards the i-th (0-based) held publish of that subscriber.
func (b *Broker) Release(sub string, i int) bool {
	b.mu.Lock()
	k := -1
	var h *Held
	for j, x := range b.held {
		if x.Sub == sub {
			k++
			if k == i {
				h = x
				b.held = append(b.held[:j:j], b.held[j+1:]...)
				break
			}
		}
	}
	b.mu.Unlock()
	if h == nil {
		return false
	}
	h.conn.Write(h.pkt)
	return true
}

// Subscriptions returns how many topic subscriptions exist for that MQTT client id.
func (b *Broker) Subscriptions(sub string) int {
	b.mu.Lock()
	defer b.mu.Unlock()
	n := 0
	for c, ts := range b.subs {
		if b.ids[c] == sub {
			n += len(ts)
		}
	}
	return n
}

func New() (*Broker, error) {
	ln, err := net.Listen("tcp", "127.0.0.1:0")
	if err != nil {
		return nil, err
	}
	b := &Broker{ln: ln, subs: map[net.Conn]map[string]bool{}, conns: map[net.Conn]bool{}, ids: map[net.Conn]string{}}
	go func() {
		for {
			c, err := ln.Accept()
			if err != nil {
				return
			}
			go b.serve(c)
		}
	}()
	return b, nil
}

func (b *Broker) Addr() string { return "tcp://" + b.ln.Addr().String() }

func readLen(r *bufio.Reader) (int, error) {
	mul, v := 1, 0
	for {
		c, err := r.ReadByte()
		if err != nil {
			return 0, err
		}
		v += int(c&127) * mul
		if c&128 == 0 {
			return v, nil
		}
		mul *= 128
	}
}

func encLen(n int) []byte {
	var out []byte
	for {
		c := byte(n % 128)
		n /= 128
		if n > 0 {
			c |= 128
		}
		out = append(out, c)
		if n == 0 {
			return out
		}
	}
}

func (b *Broker) serve(c net.Conn) {
	b.mu.Lock()
	b.conns[c] = true
	b.mu.Unlock()
	defer func() {
		b.mu.Lock()
		delete(b.subs, c)
		delete(b.conns, c)
		delete(b.ids, c)
		b.mu.Unlock()
		c.Close()
	}()
	r := bufio.NewReader(c)
	for {
		h, err := r.ReadByte()
		if err != nil {
			return
		}
		n, err := readLen(r)
		if err != nil {
			return
		}
		body := make([]byte, n)
		if _, err := io.ReadFull(r, body); err != nil {
			return
		}
		switch h >> 4 {
		case 1: // CONNECT
			if len(body) >= 2 {
				pl := int(body[0])<<8 | int(body[1])
				off := 2 + pl + 1 + 1 + 2
				if len(body) >= off+2 {
					il := int(body[off])<<8 | int(body[off+1])
					if len(body) >= off+2+il {
						b.mu.Lock()
						b.ids[c] = string(body[off+2 : off+2+il])
						b.mu.Unlock()
					}
				}
			}
			c.Write([]byte{0x20, 2, 0, 0})
		case 3: // PUBLISH qos0
			tl := int(body[0])<<8 | int(body[1])
			topic := string(body[2 : 2+tl])
			payload := body[2+tl:]
			if (h>>1)&3 != 0 {
				payload = payload[2:]
			}
			b.mu.Lock()
			b.Pubs = append(b.Pubs, Pub{topic, append([]byte{}, payload...)})
			var targets []net.Conn
			for cc, ts := range b.subs {
				if ts[topic] {
					targets = append(targets, cc)
				}
			}
			pkt := []byte{0x30}
			vb := append([]byte{byte(tl >> 8), byte(tl)}, []byte(topic)...)
			vb = append(vb, payload...)
			pkt = append(pkt, encLen(len(vb))...)
			pkt = append(pkt, vb...)
			if b.gated {
				for _, t := range targets {
					b.held = append(b.held, &Held{Sub: b.ids[t], Topic: topic, Payload: append([]byte{}, payload...), conn: t, pkt: pkt})
				}
				targets = nil
			}
			b.mu.Unlock()
			for _, t := range targets {
				t.Write(pkt)
			}
		case 8: // SUBSCRIBE
			b.mu.Lock()
			dly := b.SubscribeDelay
			b.mu.Unlock()
			if dly > 0 {
				time.Sleep(dly)
			}
			pid := body[0:2]
			rest := body[2:]
			var codes []byte
			b.mu.Lock()
			if b.subs[c] == nil {
				b.subs[c] = map[string]bool{}
			}
			for len(rest) > 0 {
				tl := int(rest[0])<<8 | int(rest[1])
				b.subs[c][string(rest[2:2+tl])] = true
				rest = rest[2+tl+1:]
				codes = append(codes, 0)
			}
			b.mu.Unlock()
			out := []byte{0x90, byte(2 + len(codes)), pid[0], pid[1]}
			c.Write(append(out, codes...))
		case 12: // PINGREQ
			c.Write([]byte{0xD0, 0})
		case 14: // DISCONNECT
			return
		}
	}
}

// Close stops the broker.
func (b *Broker) Close() {
	b.ln.Close()
	b.mu.Lock()
	for c := range b.conns {
		if t, ok := c.(*net.TCPConn); ok {
			t.SetLinger(0)
		}
		c.Close()
	}
	b.mu.Unlock()
}

// Published returns a copy of the publishes seen so far.
func (b *Broker) Published() []Pub {
	b.mu.Lock()
	defer b.mu.Unlock()
	return append([]Pub{}, b.Pubs...)
}
