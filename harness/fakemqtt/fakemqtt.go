// Package fakemqtt: minimal MQTT 3.1.1 broker (QoS0 only) for probing.
package fakemqtt

import (
	"bufio"
	"io"
	"net"
	"sync"
)

type Pub struct {
	Topic   string
	Payload []byte
}

type Broker struct {
	mu    sync.Mutex
	ln    net.Listener
	subs  map[net.Conn]map[string]bool
	conns map[net.Conn]bool
	Pubs  []Pub
}

func New() (*Broker, error) {
	ln, err := net.Listen("tcp", "127.0.0.1:0")
	if err != nil {
		return nil, err
	}
	b := &Broker{ln: ln, subs: map[net.Conn]map[string]bool{}, conns: map[net.Conn]bool{}}
	go func() {
		for {
			c, err := ln.Accept()
			if err != nil {
				return
			}
			go b.serve(c)
		}
	}()
	return b, nil
}

func (b *Broker) Addr() string { return "tcp://" + b.ln.Addr().String() }

func readLen(r *bufio.Reader) (int, error) {
	mul, v := 1, 0
	for {
		c, err := r.ReadByte()
		if err != nil {
			return 0, err
		}
		v += int(c&127) * mul
		if c&128 == 0 {
			return v, nil
		}
		mul *= 128
	}
}

func encLen(n int) []byte {
	var out []byte
	for {
		c := byte(n % 128)
		n /= 128
		if n > 0 {
			c |= 128
		}
		out = append(out, c)
		if n == 0 {
			return out
		}
	}
}

func (b *Broker) serve(c net.Conn) {
	b.mu.Lock()
	b.conns[c] = true
	b.mu.Unlock()
	defer func() {
		b.mu.Lock()
		delete(b.subs, c)
		delete(b.conns, c)
		b.mu.Unlock()
		c.Close()
	}()
	r := bufio.NewReader(c)
	for {
		h, err := r.ReadByte()
		if err != nil {
			return
		}
		n, err := readLen(r)
		if err != nil {
			return
		}
		body := make([]byte, n)
		if _, err := io.ReadFull(r, body); err != nil {
			return
		}
		switch h >> 4 {
		case 1: // CONNECT
			c.Write([]byte{0x20, 2, 0, 0})
		case 3: // PUBLISH qos0
			tl := int(body[0])<<8 | int(body[1])
			topic := string(body[2 : 2+tl])
			payload := body[2+tl:]
			if (h>>1)&3 != 0 {
				payload = payload[2:]
			}
			b.mu.Lock()
			b.Pubs = append(b.Pubs, Pub{topic, append([]byte{}, payload...)})
			var targets []net.Conn
			for cc, ts := range b.subs {
				if ts[topic] {
					targets = append(targets, cc)
				}
			}
			b.mu.Unlock()
			pkt := []byte{0x30}
			vb := append([]byte{byte(tl >> 8), byte(tl)}, []byte(topic)...)
			vb = append(vb, payload...)
			pkt = append(pkt, encLen(len(vb))...)
			pkt = append(pkt, vb...)
			for _, t := range targets {
				t.Write(pkt)
			}
		case 8: // SUBSCRIBE
			pid := body[0:2]
			rest := body[2:]
			var codes []byte
			b.mu.Lock()
			if b.subs[c] == nil {
				b.subs[c] = map[string]bool{}
			}
			for len(rest) > 0 {
				tl := int(rest[0])<<8 | int(rest[1])
				b.subs[c][string(rest[2:2+tl])] = true
				rest = rest[2+tl+1:]
				codes = append(codes, 0)
			}
			b.mu.Unlock()
			out := []byte{0x90, byte(2 + len(codes)), pid[0], pid[1]}
			c.Write(append(out, codes...))
		case 12: // PINGREQ
			c.Write([]byte{0xD0, 0})
		case 14: // DISCONNECT
			return
		}
	}
}

// Close stops the broker.
func (b *Broker) Close() {
	b.ln.Close()
	b.mu.Lock()
	for c := range b.conns {
		if t, ok := c.(*net.TCPConn); ok {
			t.SetLinger(0)
		}
		c.Close()
	}
	b.mu.Unlock()
}

// Published returns a copy of the publishes seen so far.
func (b *Broker) Published() []Pub {
	b.mu.Lock()
	defer b.mu.Unlock()
	return append([]Pub{}, b.Pubs...)
}
