// Command idscheck binds the identifier operators of the specification (spec/OrdaIds.tla, enumerated by
// spec/OrdaIdsGrid.tla) to the real code (C15):
//
//	point    Timestamp.Hash of every grid timestamp: injective over the whole grid
//	pair     Timestamp.Compare / OperationID.Compare against TsLess / TsEq
//	id       OperationID.Next / RollBack / SyncLamport against NextId / RollBackId / SyncLamport
//	collide  for two distinct element identifiers of one client (the pairs TLC finds equal under a
//	         separator-less rendering) a real history is built in which both elements exist - two batch
//	         inserts at the right logical clocks - and an operation addressed to one of them (delete, update)
//	         must leave the other alone on the issuing replica and on a replica that receives the operations.
//	         Lists and Document arrays.
package main

import (
	"bufio"
	"encoding/json"
	"flag"
	"fmt"
	"os"
	"reflect"
	"strings"
	"syscall"

	"github.com/orda-io/orda/client/pkg/iface"
	"github.com/orda-io/orda/client/pkg/model"
	"github.com/orda-io/orda/client/pkg/orda"
	"google.golang.org/protobuf/proto"

	"verifharness/replica"
	"verifharness/vals"
)

type IDv struct {
	L int `json:"l"`
	S int `json:"s"`
}

type point struct {
	Kind string `json:"kind"`
	T    []int  `json:"t,omitempty"`
	A    []int  `json:"a,omitempty"`
	B    []int  `json:"b,omitempty"`
	Less bool   `json:"less,omitempty"`
	Eq   bool   `json:"eq,omitempty"`
	L    int    `json:"l,omitempty"`
	S    int    `json:"s,omitempty"`
	O    int    `json:"o,omitempty"`
	Next *IDv   `json:"next,omitempty"`
	Back *IDv   `json:"back,omitempty"`
	Sync int    `json:"sync,omitempty"`
}

type Violation struct {
	Property string      `json:"property"`
	Kind     string      `json:"kind"`
	Class    string      `json:"class"`
	Why      string      `json:"why"`
	Steps    []point     `json:"steps"`
	Expected interface{} `json:"expected,omitempty"`
	Observed interface{} `json:"observed,omitempty"`
	Hash     string      `json:"hash"`
	Tool     string      `json:"tool"`
}

type Summary struct {
	Property   string         `json:"property"`
	Behaviours int            `json:"behaviours"`
	Completed  int            `json:"completed"`
	Distinct   int            `json:"distinct"`
	Checked    map[string]int `json:"checked"`
	NViol      int            `json:"nviol"`
	Violations []Violation    `json:"violations"`
	Samples    []interface{}  `json:"samples"`
}

// client ids of the specification (1 < 2 < 3) as CUIDs of the real shape, in the same order; two of them start
// with digits, so that digits of the client id meet digits of the counters in any separator-less rendering
var cuids = map[int]string{1: "1aaaaaaaaaaaaaaa", 2: "21bbbbbbbbbbbbbb", 3: "zzzzzzzzzzzzzzz3"}

var sum = Summary{Property: "C15", Checked: map[string]int{}}
var keys = map[string][]int{}

func violate(p point, class, why string, exp, got interface{}) {
	sum.NViol++
	if len(sum.Violations) < 6 {
		b, _ := json.Marshal(p)
		sum.Violations = append(sum.Violations, Violation{Property: "C15", Kind: p.Kind, Class: class, Why: why, Steps: []point{p},
			Expected: exp, Observed: got, Hash: fmt.Sprintf("ids-%x", hashOf(string(b)+why)), Tool: "idscheck"})
	}
}

func hashOf(s string) uint32 {
	h := uint32(2166136261)
	for i := 0; i < len(s); i++ {
		h = (h ^ uint32(s[i])) * 16777619
	}
	return h
}

func ts(t []int) *model.Timestamp {
	return model.NewTimestamp(0, uint64(t[0]), cuids[t[1]], uint32(t[2]))
}

func sign(x int) int {
	if x < 0 {
		return -1
	}
	if x > 0 {
		return 1
	}
	return 0
}

func check(p point) {
	sum.Behaviours++
	switch p.Kind {
	case "point":
		k := ts(p.T).Hash()
		sum.Checked["identifier keys"]++
		if other, ok := keys[k]; ok && !reflect.DeepEqual(other, p.T) {
			violate(p, "mismatch", fmt.Sprintf("two distinct timestamps share the identifier key %q", k), p.T, other)
			return
		}
		keys[k] = p.T
	case "pair":
		got := ts(p.A).Compare(ts(p.B))
		want := 1
		if p.Less {
			want = -1
		} else if p.Eq {
			want = 0
		}
		sum.Checked["comparisons"]++
		if sign(got) != want {
			violate(p, "mismatch", "Timestamp.Compare differs from the specification's order", want, got)
			return
		}
		ia := &model.OperationID{Lamport: uint64(p.A[0]), CUID: cuids[p.A[1]], Seq: 7}
		ib := &model.OperationID{Lamport: uint64(p.B[0]), CUID: cuids[p.B[1]], Seq: 9}
		if g2 := ia.Compare(ib); sign(g2) != want {
			violate(p, "mismatch", "OperationID.Compare differs from the specification's order", want, g2)
			return
		}
		// antisymmetry on the real function
		if back := ts(p.B).Compare(ts(p.A)); sign(back) != -want {
			violate(p, "mismatch", "Timestamp.Compare is not antisymmetric", -want, back)
			return
		}
	case "id":
		id := &model.OperationID{Lamport: uint64(p.L), CUID: cuids[1], Seq: uint64(p.S)}
		n := id.Next()
		sum.Checked["operation id steps"]++
		if int(n.Lamport) != p.Next.L || int(n.Seq) != p.Next.S || int(id.Lamport) != p.Next.L || int(id.Seq) != p.Next.S {
			violate(p, "mismatch", "OperationID.Next differs from the specification", p.Next, []uint64{n.Lamport, n.Seq})
			return
		}
		id.RollBack()
		if int(id.Lamport) != p.Back.L || int(id.Seq) != p.Back.S {
			violate(p, "mismatch", "OperationID.RollBack does not undo Next", p.Back, []uint64{id.Lamport, id.Seq})
			return
		}
		if got := id.SyncLamport(uint64(p.O)); int(got) != p.Sync || int(id.Lamport) != p.Sync {
			violate(p, "mismatch", "OperationID.SyncLamport differs from the specification", p.Sync, got)
			return
		}
	case "collide":
		for _, kind := range []string{"list", "doc"} {
			for _, probe := range []string{"delete-a", "delete-b", "update-a", "update-b"} {
				sum.Checked["element histories ("+kind+")"]++
				if why, exp, got := history(kind, p.A, p.B, probe); why != "" {
					violate(p, "mismatch", kind+", "+probe+": "+why, exp, got)
					return
				}
			}
		}
	default:
		return
	}
	sum.Completed++
}

// world of two real replicas of one datatype; A works, B receives A's operations through protobuf
type world struct {
	kind  string
	a, b  *replica.Inst
	sent  int
	la    orda.List
	lb    orda.List
	da    orda.Document
	db    orda.Document
	delta int // lamports consumed before the first insert (creation, and for documents the array itself)
}

func newWorld(kind string) (*world, error) {
	w := &world{kind: kind}
	w.a, w.b = replica.NewInst(kind, "k"), replica.NewInst(kind, "k")
	switch kind {
	case "list":
		w.la, w.lb = w.a.List, w.b.List
		w.delta = 1
	case "doc":
		w.da, w.db = w.a.Doc, w.b.Doc
		if _, err := w.da.PutToObject("arr", []interface{}{}); err != nil {
			return nil, err
		}
		w.delta = 2
	}
	return w, nil
}

func (w *world) arr(d orda.Document) orda.Document {
	c, err := d.GetFromObject("arr")
	if err != nil || c == nil {
		return nil
	}
	return c
}

func (w *world) insert(tags ...interface{}) error {
	if w.kind == "list" {
		_, err := w.la.InsertMany(w.la.Size(), tags...)
		return err
	}
	a := w.arr(w.da)
	if a == nil {
		return fmt.Errorf("no array")
	}
	_, err := a.InsertToArray(len(w.view(false)), tags...)
	return err
}

func (w *world) view(second bool) []string {
	var raw interface{}
	if w.kind == "list" {
		if second {
			raw = w.lb.ToJSON()
		} else {
			raw = w.la.ToJSON()
		}
	} else {
		d := w.da
		if second {
			d = w.db
		}
		raw = d.ToJSON()
	}
	c, _ := vals.CanonJSON(raw)
	var walk func(v interface{}) []string
	walk = func(v interface{}) []string {
		switch x := v.(type) {
		case map[string]interface{}:
			for _, k := range []string{"List", "arr"} {
				if y, ok := x[k]; ok {
					return walk(y)
				}
			}
		case []interface{}:
			out := []string{}
			for _, e := range x {
				out = append(out, fmt.Sprint(e))
			}
			return out
		}
		return nil
	}
	return walk(c)
}

// sync delivers A's new operations to B as the wire would carry them
func (w *world) sync() error {
	ops := w.a.DT.CreatePushPullPack().Operations
	var fresh []*model.Operation
	for _, op := range ops[w.sent:] {
		if op.OpType == model.TypeOfOperation_COUNTER_SNAPSHOT || strings.HasSuffix(op.OpType.String(), "SNAPSHOT") {
			continue // the creation operation is not delivered to the other creator
		}
		b, err := proto.Marshal(op)
		if err != nil {
			return err
		}
		cp := &model.Operation{}
		if err := proto.Unmarshal(b, cp); err != nil {
			return err
		}
		fresh = append(fresh, cp)
	}
	w.sent = len(ops)
	if len(fresh) == 0 {
		return nil
	}
	_, err := w.b.DT.(iface.WiredDatatype).ReceiveRemoteModelOperations(fresh, false)
	if err != nil {
		return fmt.Errorf("%v", err)
	}
	return nil
}

func tag(l, d int) string { return fmt.Sprintf("L%dD%d", l, d) }

// history builds both elements for real and aims one operation at one of them.
func history(kind string, a, b []int, probe string) (why string, exp, got interface{}) {
	defer func() {
		if r := recover(); r != nil {
			why = fmt.Sprintf("panic: %v", r)
		}
	}()
	w, err := newWorld(kind)
	if err != nil {
		return "setup: " + err.Error(), nil, nil
	}
	la, da, lb, db := a[0], a[2], b[0], b[2]
	if la <= w.delta {
		return "", nil, nil // this clock value is taken by the setup
	}
	lam := w.delta // lamport of the last operation made
	single := func(upto int) error {
		for lam < upto {
			lam++
			if err := w.insert(tag(lam, 0)); err != nil {
				return err
			}
		}
		return nil
	}
	batch := func(l, n int) error {
		var vs []interface{}
		for k := 0; k <= n; k++ {
			vs = append(vs, tag(l, k))
		}
		lam++
		return w.insert(vs...)
	}
	if err := single(la - 1); err != nil {
		return "insert: " + err.Error(), nil, nil
	}
	if err := batch(la, da); err != nil {
		return "insert: " + err.Error(), nil, nil
	}
	if err := single(lb - 1); err != nil {
		return "insert: " + err.Error(), nil, nil
	}
	if err := batch(lb, db); err != nil {
		return "insert: " + err.Error(), nil, nil
	}
	// the elements carry the identifiers the specification talks about
	if ops := w.a.DT.CreatePushPullPack().Operations; int(ops[len(ops)-1].ID.Lamport) != lb {
		return "harness: the last operation has lamport " + fmt.Sprint(ops[len(ops)-1].ID.Lamport), lb, nil
	}
	if err := w.sync(); err != nil {
		return "delivery failed: " + err.Error(), nil, nil
	}
	before := w.view(false)
	if !reflect.DeepEqual(before, w.view(true)) {
		return "after delivering the inserts the replicas differ", before, w.view(true)
	}
	target, other := tag(la, da), tag(lb, db)
	if strings.HasSuffix(probe, "-b") {
		target, other = other, target
	}
	pos := -1
	for i, t := range before {
		if t == target {
			pos = i
		}
	}
	if pos < 0 {
		return "element " + target + " is not readable", target, before
	}
	want := append([]string{}, before...)
	if strings.HasPrefix(probe, "delete") {
		want = append(want[:pos:pos], want[pos+1:]...)
		if kind == "list" {
			_, err = w.la.Delete(pos)
		} else {
			_, err = w.arr(w.da).DeleteInArray(pos)
		}
	} else {
		want[pos] = "U-" + target
		if kind == "list" {
			_, err = w.la.Update(pos, "U-"+target)
		} else {
			_, err = w.arr(w.da).UpdateManyInArray(pos, "U-"+target)
		}
	}
	if err != nil {
		return "the operation on " + target + " failed: " + fmt.Sprint(err), nil, nil
	}
	if got := w.view(false); !reflect.DeepEqual(got, want) {
		return "an operation addressed to " + target + " changed something else on the issuing replica (other element: " + other + ")", want, got
	}
	if err := w.sync(); err != nil {
		return "delivery failed: " + err.Error(), nil, nil
	}
	if got := w.view(true); !reflect.DeepEqual(got, want) {
		return "an operation addressed to " + target + " touched another element on the receiving replica (the two share an identifier key: " + other + ")", want, got
	}
	return "", nil, nil
}

func main() {
	in := flag.String("in", "", "file with IDS lines")
	rf := flag.String("replayfile", "", "re-run a violation record")
	verbose := flag.Bool("v", false, "verbose")
	flag.String("kind", "", "")
	flag.Int("n", 0, "")
	flag.String("prop", "C15", "")
	flag.String("journal", "", "")
	flag.Int("skip", 0, "")
	flag.Parse()
	if os.Getenv("VERIF_STDERR") == "" {
		if dn, err := os.OpenFile("/dev/null", os.O_WRONLY, 0); err == nil {
			syscall.Dup2(int(dn.Fd()), 2)
		}
	}
	if *rf != "" {
		b, err := os.ReadFile(*rf)
		if err != nil {
			fmt.Println("cannot read", *rf)
			os.Exit(2)
		}
		var v Violation
		if err := json.Unmarshal(b, &v); err != nil {
			fmt.Println("bad replay file")
			os.Exit(2)
		}
		for _, p := range v.Steps {
			check(p)
		}
		if *verbose {
			out, _ := json.MarshalIndent(sum, "", " ")
			fmt.Println(string(out))
		}
		if sum.NViol > 0 {
			fmt.Println("reproduced:", sum.Violations[0].Why)
			os.Exit(1)
		}
		fmt.Println("not reproduced")
		return
	}
	f := os.Stdin
	if *in != "" {
		var err error
		if f, err = os.Open(*in); err != nil {
			fmt.Println(`{"error":"cannot open input"}`)
			os.Exit(3)
		}
	}
	sc := bufio.NewScanner(f)
	sc.Buffer(make([]byte, 1<<20), 1<<26)
	for sc.Scan() {
		line := sc.Text()
		if strings.HasPrefix(line, "\"IDS ") {
			var unq string
			if json.Unmarshal([]byte(line), &unq) != nil {
				continue
			}
			line = unq
		}
		if !strings.HasPrefix(line, "IDS ") {
			continue
		}
		var p point
		if err := json.Unmarshal([]byte(line[4:]), &p); err != nil {
			fmt.Printf(`{"error":"bad IDS line: %s"}`+"\n", err)
			os.Exit(3)
		}
		check(p)
		if len(sum.Samples) < 2 && p.Kind == "collide" {
			sum.Samples = append(sum.Samples, p)
		}
	}
	sum.Distinct = sum.Behaviours
	out, _ := json.Marshal(sum)
	fmt.Println(string(out))
	if sum.NViol > 0 {
		os.Exit(1)
	}
}
