// multireplay: S->I replay of OrdaMulti behaviours through the PUBLIC client API: real orda clients in manual
// sync mode with several datatypes each, Client.Sync() over real gRPC on loopback to the real server (one message
// with one pack per datatype; the server handles the packs of a message in parallel).
//
//	open     SubscribeOrCreateCounter(key)
//	local    one increment (one base-4 digit per operation, so that a value shows what was applied, and how often)
//	send     the user calls Sync() in a goroutine; the request reaches the server's port and is parked there
//	serve    the parked request is handed to the real service; its answer is parked
//	respond  the answer is let through; Sync() returns after having applied every pack
//
// Compared: the packs of every request (datatype, entry bits, checkpoint, number of operations), the packs of
// every answer (kind, checkpoint, number of operations), and at the end of the behaviour every datatype of every
// client (state, checkpoint, value) and the store (log, recorded checkpoints and owner of every key).
package main

import (
	"bufio"
	"crypto/sha1"
	"encoding/hex"
	"encoding/json"
	"flag"
	"fmt"
	"os"
	"sort"
	"strings"
	"syscall"
	"time"

	"github.com/orda-io/orda/client/pkg/model"

	"verifharness/rt"
	"verifharness/stack"
)

type PackOut struct {
	K    int    `json:"k"`
	Due  bool   `json:"due,omitempty"`
	Kind string `json:"kind,omitempty"`
	Cps  int    `json:"cps"`
	Cpc  int    `json:"cpc"`
	Nops int    `json:"nops"`
}

type Act struct {
	Name  string    `json:"name"`
	C     int       `json:"c,omitempty"`
	K     int       `json:"k,omitempty"`
	Seq   int       `json:"seq,omitempty"`
	ID    int       `json:"id,omitempty"`
	Packs []PackOut `json:"packs,omitempty"`
}

type ClObs struct {
	State   string  `json:"state"`
	Cps     int     `json:"cps"`
	Cpc     int     `json:"cpc"`
	Seq     int     `json:"seq"`
	Applied [][]int `json:"applied"`
	Settled bool    `json:"settled"`
}

type Obs struct {
	Cl     [][]ClObs   `json:"cl"`
	Log    [][][]int   `json:"log"`
	Exists []bool      `json:"exists"`
	Owner  []int       `json:"owner"`
	Scp    [][][]int   `json:"scp"`
	Extra  interface{} `json:"-"`
}

type Edge struct {
	Hist []Act `json:"hist"`
	Obs  Obs   `json:"obs"`
}

type Step struct {
	T      int             `json:"t"`
	L      int             `json:"l"`
	Act    Act             `json:"act"`
	Pact   json.RawMessage `json:"pact"`
	RawAct json.RawMessage `json:"-"`
	Obs    Obs             `json:"obs"`
}

type Violation struct {
	Property string      `json:"property"`
	Kind     string      `json:"kind"`
	N        int         `json:"n"`
	K        int         `json:"k"`
	Class    string      `json:"class"`
	Why      string      `json:"why"`
	Step     int         `json:"failed_at"`
	Expected interface{} `json:"expected,omitempty"`
	Observed interface{} `json:"observed,omitempty"`
	Steps    []Act       `json:"steps"`
	Obs      *Obs        `json:"obs_at_failure,omitempty"`
	Hash     string      `json:"hash"`
	Tool     string      `json:"tool"`
}

type Summary struct {
	Property   string         `json:"property"`
	Kind       string         `json:"kind"`
	Behaviours int            `json:"behaviours"`
	Steps      int            `json:"steps"`
	Completed  int            `json:"completed"`
	Desynced   int            `json:"desynced"`
	DesyncWhy  map[string]int `json:"desync_why"`
	Checked    map[string]int `json:"checked"`
	NViol      int            `json:"nviol"`
	Violations []Violation    `json:"violations"`
	Samples    []interface{}  `json:"samples"`
	Distinct   int            `json:"distinct"`
}

type engine struct {
	prop    string
	n, k    int
	sum     Summary
	seen    map[string]bool
	dist    map[string]bool
	maxV    int
	journal string
	skip    int
	nth     int
	srv     *rt.Server
}

var long = stack.Patience(6 * time.Second)

type world struct {
	e     *engine
	cls   map[int]*rt.Client
	keys  []string
	nops  []int
	digit map[[3]int]int
	reqs  map[int]*rt.PReq
	done  map[int]chan error // Sync() calls in flight, by request id
	seen  int
}

type run struct {
	e      *engine
	w      *world
	acts   []Act
	curObs *Obs
}

func (r *run) violate(step int, class, why string, exp, obs interface{}) {
	e := r.e
	prefix := r.acts[:step+1]
	b, _ := json.Marshal(prefix)
	h := sha1.Sum(append(b, []byte(class+why)...))
	hash := hex.EncodeToString(h[:8])
	if e.seen[hash] {
		return
	}
	e.seen[hash] = true
	e.sum.NViol++
	if len(e.sum.Violations) < e.maxV {
		e.sum.Violations = append(e.sum.Violations, Violation{Property: e.prop, Kind: "counter", N: e.n, K: e.k, Class: class, Why: why, Step: step,
			Expected: exp, Observed: obs, Steps: append([]Act{}, prefix...), Obs: r.curObs, Hash: hash, Tool: "multireplay"})
	}
}

func (e *engine) count(k string) { e.sum.Checked[k]++ }

// one base-4 digit per operation (15 digits in an int32): a digit shows how often the operation was applied
func pow8(j int) int32 {
	v := int32(1)
	for i := 0; i < j; i++ {
		v *= 4
	}
	return v
}

func fatal(format string, a ...interface{}) {
	fmt.Printf(`{"error":%q}`+"\n", fmt.Sprintf(format, a...))
	os.Exit(3)
}

func js(v interface{}) string { b, _ := json.Marshal(v); return string(b) }

func kindOf(p *model.PushPullPack) string {
	o := p.GetPushPullPackOption()
	switch {
	case o.HasErrorBit():
		return "error"
	case o.HasSubscribeBit():
		return "subscribed"
	case o.HasCreateBit():
		return "created"
	}
	return "normal"
}

func (w *world) keyIdx(key string) int {
	for i, k := range w.keys {
		if k == key {
			return i + 1
		}
	}
	return 0
}

func (r *run) step(i int) bool {
	w, e, a := r.w, r.e, &r.acts[i]
	switch a.Name {
	case "open":
		cl := w.cls[a.C]
		if cl == nil {
			var err error
			cl, err = e.srv.NewClient("col", fmt.Sprintf("c%d", a.C), model.SyncType_MANUALLY)
			if err != nil {
				fatal("client: %v", err)
			}
			w.cls[a.C] = cl
		}
		cl.OpenCounter(w.keys[a.K-1], "dueSubCreate")
	case "local":
		d := w.cls[a.C].DTs[w.keys[a.K-1]]
		j := w.nops[a.K-1]
		if j > 14 {
			fatal("more than 15 operations on one key")
		}
		w.nops[a.K-1]++
		w.digit[[3]int{a.C, a.K, a.Seq}] = j
		if _, err := d.Counter.IncreaseBy(pow8(j)); err != nil {
			r.violate(i, "mismatch", "local operation failed: "+err.Error(), nil, nil)
			return false
		}
	case "send":
		cl := w.cls[a.C]
		ch := make(chan error, 1)
		go func() { ch <- cl.C.Sync() }()
		var pr *rt.PReq
		if !rt.WaitFor(long, func() bool {
			all := e.srv.Proxy.Requests()
			if len(all) > w.seen {
				pr = all[w.seen]
				return true
			}
			return false
		}) {
			r.violate(i, "hang", "Sync() was called but no request reached the server", nil, nil)
			return false
		}
		w.seen++
		w.reqs[a.ID], w.done[a.ID] = pr, ch
		var got []PackOut
		for _, p := range pr.In.PushPullPacks {
			o := p.GetPushPullPackOption()
			got = append(got, PackOut{K: w.keyIdx(p.Key), Due: o.HasCreateBit() && o.HasSubscribeBit(), Cps: int(p.CheckPoint.Sseq), Cpc: int(p.CheckPoint.Cseq), Nops: len(p.Operations)})
		}
		sort.Slice(got, func(x, y int) bool { return got[x].K < got[y].K })
		e.count("requests compared")
		if w.cidx(pr.In.Cuid) != a.C || js(got) != js(a.Packs) {
			r.violate(i, "mismatch", "the message Sync() sent differs from the specification's (one pack per opened datatype: entry bits, checkpoint, operations)", a.Packs, got)
			return false
		}
	case "serve":
		pr := w.reqs[a.ID]
		if pr == nil {
			fatal("serve of unknown request %d", a.ID)
		}
		if !pr.Serve(long) {
			r.violate(i, "hang", "the server did not answer a request within the deadline", nil, nil)
			return false
		}
		if pr.Err != nil || pr.Out == nil {
			r.violate(i, "error", fmt.Sprintf("the request was refused: %v", pr.Err), a.Packs, nil)
			return false
		}
		var got []PackOut
		for _, p := range pr.Out.PushPullPacks {
			got = append(got, PackOut{K: w.keyIdx(p.Key), Kind: kindOf(p), Cps: int(p.CheckPoint.Sseq), Cpc: int(p.CheckPoint.Cseq), Nops: len(p.Operations)})
		}
		sort.Slice(got, func(x, y int) bool { return got[x].K < got[y].K })
		e.count("responses compared")
		if js(got) != js(a.Packs) {
			r.violate(i, "mismatch", "the server's answer differs from the specification's (one pack per requested datatype: kind, checkpoint, pulled operations)", a.Packs, got)
			return false
		}
	case "respond":
		pr := w.reqs[a.ID]
		if pr == nil {
			fatal("respond of unknown request %d", a.ID)
		}
		pr.Respond()
		select {
		case err := <-w.done[a.ID]:
			if err != nil {
				r.violate(i, "error", "Sync() returned an error: "+err.Error(), nil, nil)
				return false
			}
		case <-time.After(long):
			r.violate(i, "hang", "Sync() did not return after its answer was let through", nil, nil)
			return false
		}
		delete(w.done, a.ID)
	default:
		fatal("unknown action %s", a.Name)
	}
	return true
}

func (w *world) cidx(cuid string) int {
	for c, cl := range w.cls {
		if cl.CUID == cuid {
			return c
		}
	}
	return 0
}

var stateName = map[string]string{"closed": "", "due": "DUE_TO_SUBSCRIBE_CREATE", "subscribed": "SUBSCRIBED"}

// compare the whole observable state with the specification's
func (r *run) compare(i int, ob *Obs) bool {
	w, e := r.w, r.e
	exp := map[string]interface{}{}
	got := map[string]interface{}{}
	build := func() {
		var ec, gc [][]interface{}
		for c := 1; c <= e.n; c++ {
			var er, gr []interface{}
			for k := 1; k <= e.k; k++ {
				co := ob.Cl[c-1][k-1]
				want := int64(0)
				for _, o := range co.Applied {
					if len(o) == 4 && o[3] == 0 {
						want += int64(pow8(w.digit[[3]int{o[0], o[1], o[2]}]))
					}
				}
				if co.State == "closed" {
					er = append(er, "closed")
					if cl := w.cls[c]; cl != nil && cl.DTs[w.keys[k-1]] != nil {
						gr = append(gr, "open")
					} else {
						gr = append(gr, "closed")
					}
					continue
				}
				er = append(er, []interface{}{stateName[co.State], co.Cps, co.Seq, want})
				d := w.cls[c].DTs[w.keys[k-1]]
				p := d.W.CreatePushPullPack()
				gr = append(gr, []interface{}{d.W.GetState().String(), int(p.CheckPoint.Sseq), int(p.CheckPoint.Cseq), int64(d.Counter.Get())})
			}
			ec, gc = append(ec, er), append(gc, gr)
		}
		exp["clients"], got["clients"] = ec, gc
		store := e.srv.St.ReadStore()
		var el, gl []interface{}
		for k := 1; k <= e.k; k++ {
			var row *stack.DatatypeRow
			n := 0
			for j := range store.Datatypes {
				if store.Datatypes[j].Key == w.keys[k-1] {
					row = &store.Datatypes[j]
					n++
				}
			}
			if !ob.Exists[k-1] {
				el = append(el, "absent")
				if n == 0 {
					gl = append(gl, "absent")
				} else {
					gl = append(gl, fmt.Sprintf("%d datatypes", n))
				}
				continue
			}
			lg := [][]int{}
			for _, o := range ob.Log[k-1] {
				lg = append(lg, []int{o[0], o[2]})
			}
			el = append(el, []interface{}{1, ob.Owner[k-1], lg, ob.Scp[k-1]})
			if row == nil {
				gl = append(gl, "absent")
				continue
			}
			rows := append([]stack.OpRow{}, store.Ops[row.DUID]...)
			sort.Slice(rows, func(x, y int) bool { return rows[x].Sseq < rows[y].Sseq })
			rl := [][]int{}
			for idx, o := range rows {
				if int(o.Sseq) != idx+1 {
					rl = append(rl, []int{-1, int(o.Sseq)})
					continue
				}
				rl = append(rl, []int{w.cidx(o.CUID), int(o.Seq)})
			}
			owner := 0
			for c, cl := range w.cls {
				if d := cl.DTs[w.keys[k-1]]; d != nil && d.W.GetDUID() == row.DUID && (ob.Owner[k-1] == c) {
					owner = c
				}
			}
			var scp [][]int
			for c := 1; c <= e.n; c++ {
				cp := []int{-1, -1}
				if cl := w.cls[c]; cl != nil {
					if v, ok := row.CP[cl.CUID]; ok {
						cp = []int{int(v[0]), int(v[1])}
					}
				}
				scp = append(scp, cp)
			}
			gl = append(gl, []interface{}{n, owner, rl, scp})
		}
		exp["store"], got["store"] = el, gl
	}
	ok := rt.WaitFor(long, func() bool {
		build()
		return js(exp) == js(got)
	})
	e.count("state comparisons")
	if !ok {
		var diff []string
		for k := range exp {
			if js(exp[k]) != js(got[k]) {
				diff = append(diff, k)
			}
		}
		sort.Strings(diff)
		r.violate(i, "mismatch", "the real state differs from the specification's in: "+strings.Join(diff, ", "), exp, got)
		return false
	}
	return true
}

func (e *engine) behaviour(acts []Act, obsAt func(i int) *Obs) bool {
	e.nth++
	if e.nth <= e.skip {
		return true
	}
	if e.journal != "" {
		last := len(acts) - 1
		rec := Violation{Property: e.prop, Kind: "counter", N: e.n, K: e.k, Class: "crash", Steps: acts, Step: last, Obs: obsAt(last), Tool: "multireplay"}
		b, _ := json.Marshal(map[string]interface{}{"nth": e.nth, "record": rec, "partial": e.sum})
		os.WriteFile(e.journal+".tmp", b, 0644)
		os.Rename(e.journal+".tmp", e.journal)
	}
	if e.srv != nil && e.sum.Behaviours%40 == 0 {
		e.srv.Close()
		e.srv = nil
	}
	if e.srv == nil {
		srv, err := rt.NewServer()
		if err != nil {
			fatal("server: %v", err)
		}
		if err := srv.St.CreateCollection("col"); err != nil {
			fatal("create collection: %v", err)
		}
		e.srv = srv
	}
	e.srv.Proxy.Forget()
	e.srv.Proxy.SetGated(true)
	w := &world{e: e, cls: map[int]*rt.Client{}, digit: map[[3]int]int{}, reqs: map[int]*rt.PReq{}, done: map[int]chan error{}, nops: make([]int, e.k)}
	for k := 1; k <= e.k; k++ {
		w.keys = append(w.keys, fmt.Sprintf("b%dk%d", e.nth, k))
	}
	defer func() {
		e.srv.Proxy.SetGated(false)
		for _, pr := range e.srv.Proxy.Requests() {
			if !pr.Done() {
				go func(pr *rt.PReq) { pr.Serve(long); pr.Respond() }(pr)
			}
		}
		for _, cl := range w.cls {
			done := make(chan struct{})
			go func(c *rt.Client) { defer func() { recover(); close(done) }(); _ = c.C.Close() }(cl)
			select {
			case <-done:
			case <-time.After(stack.Patience(2 * time.Second)):
			}
		}
	}()
	r := &run{e: e, w: w, acts: acts}
	e.sum.Behaviours++
	for i := range acts {
		if acts[i].Name == "init" {
			continue
		}
		e.sum.Steps++
		r.curObs = obsAt(i)
		if !r.step(i) {
			return false
		}
		if r.curObs != nil && !r.compare(i, r.curObs) {
			return false
		}
	}
	e.sum.Completed++
	return true
}

func sameJSON(a, b json.RawMessage) bool {
	var x, y interface{}
	if json.Unmarshal(a, &x) != nil || json.Unmarshal(b, &y) != nil {
		return false
	}
	return js(x) == js(y)
}

func chooseWalk(lines []Step) []Step {
	byLevel := map[int][]Step{}
	maxL, minL := 0, 1<<30
	for _, s := range lines {
		byLevel[s.L] = append(byLevel[s.L], s)
		if s.L > maxL {
			maxL = s.L
		}
		if s.L < minL {
			minL = s.L
		}
	}
	var out []Step
	for l := minL; l <= maxL; l++ {
		cands := byLevel[l]
		if len(cands) == 0 {
			break
		}
		pick := cands[0]
		if next := byLevel[l+1]; len(next) > 0 {
			found := false
			for _, c := range cands {
				if sameJSON(c.RawAct, next[0].Pact) {
					pick, found = c, true
					break
				}
			}
			if !found {
				break
			}
		}
		out = append(out, pick)
	}
	return out
}

func (e *engine) distinct(acts []Act) {
	b, _ := json.Marshal(acts)
	h := sha1.Sum(b)
	e.dist[string(h[:8])] = true
}

func newEngine(prop string, n, k, maxV int, journal string, skip int) *engine {
	e := &engine{prop: prop, n: n, k: k, seen: map[string]bool{}, dist: map[string]bool{}, maxV: maxV, journal: journal, skip: skip}
	e.sum = Summary{Property: prop, Kind: "counter", DesyncWhy: map[string]int{}, Checked: map[string]int{}}
	return e
}

func main() {
	prop := flag.String("prop", "C05", "property whose oracle is evaluated")
	flag.String("kind", "counter", "datatype kind (counters only)")
	flag.Int("n", 2, "clients")
	in := flag.String("in", "", "file with EDGE / STEP lines")
	maxV := flag.Int("maxv", 5, "violations kept")
	rf := flag.String("replayfile", "", "re-run a violation record")
	verbose := flag.Bool("v", false, "verbose replayfile mode")
	journal := flag.String("journal", "", "file that always holds the behaviour in flight")
	skip := flag.Int("skip", 0, "skip this many behaviours of the input")
	flag.Parse()
	if os.Getenv("VERIF_STDERR") == "" {
		if dn, err := os.OpenFile("/dev/null", os.O_WRONLY, 0); err == nil {
			syscall.Dup2(int(dn.Fd()), 2)
		}
	}
	if *rf != "" {
		os.Exit(replayFile(*rf, *verbose))
	}
	var e *engine
	mk := func(ob *Obs) {
		if e == nil {
			e = newEngine(*prop, len(ob.Cl), len(ob.Log), *maxV, *journal, *skip)
		}
	}
	f := os.Stdin
	if *in != "" {
		var err error
		if f, err = os.Open(*in); err != nil {
			fatal("cannot open input")
		}
	}
	sc := bufio.NewScanner(f)
	sc.Buffer(make([]byte, 1<<20), 1<<28)
	var walk []Step
	flush := func() {
		if len(walk) == 0 {
			return
		}
		chosen := chooseWalk(walk)
		walk = nil
		if len(chosen) < 2 {
			return
		}
		acts := make([]Act, len(chosen))
		for i := range chosen {
			acts[i] = chosen[i].Act
		}
		mk(&chosen[0].Obs)
		e.distinct(acts)
		e.behaviour(acts, func(i int) *Obs { return &chosen[i].Obs })
		if len(e.sum.Samples) < 2 {
			e.sum.Samples = append(e.sum.Samples, map[string]interface{}{"mode": "walk", "acts": acts})
		}
	}
	for sc.Scan() {
		if e != nil && e.sum.NViol >= 10 {
			walk = nil
			break
		}
		line := sc.Text()
		if strings.HasPrefix(line, "\"EDGE ") || strings.HasPrefix(line, "\"STEP ") {
			var unq string
			if err := json.Unmarshal([]byte(line), &unq); err != nil {
				fatal("cannot unquote line: %v", err)
			}
			line = unq
		}
		switch {
		case strings.HasPrefix(line, "EDGE "):
			var ed Edge
			if err := json.Unmarshal([]byte(line[5:]), &ed); err != nil {
				fatal("bad EDGE line: %v", err)
			}
			mk(&ed.Obs)
			last := len(ed.Hist) - 1
			e.distinct(ed.Hist)
			e.behaviour(ed.Hist, func(i int) *Obs {
				if i == last {
					return &ed.Obs
				}
				return nil
			})
			if len(e.sum.Samples) < 2 && len(ed.Hist) > 5 {
				e.sum.Samples = append(e.sum.Samples, map[string]interface{}{"mode": "edge", "acts": ed.Hist, "obs": ed.Obs})
			}
		case strings.HasPrefix(line, "STEP "):
			var st Step
			if err := json.Unmarshal([]byte(line[5:]), &st); err != nil {
				fatal("bad STEP line: %v", err)
			}
			var rawL struct {
				Act json.RawMessage `json:"act"`
			}
			json.Unmarshal([]byte(line[5:]), &rawL)
			st.RawAct = rawL.Act
			if len(walk) > 0 && (st.T != walk[0].T || st.L < walk[len(walk)-1].L) {
				flush()
			}
			walk = append(walk, st)
		}
	}
	flush()
	if e == nil {
		fmt.Println(`{"behaviours":0,"nviol":0}`)
		return
	}
	e.sum.Distinct = len(e.dist)
	out, _ := json.Marshal(e.sum)
	fmt.Println(string(out))
	if e.sum.NViol > 0 {
		os.Exit(1)
	}
}

func replayFile(path string, verbose bool) int {
	b, err := os.ReadFile(path)
	if err != nil {
		fmt.Println("cannot read", path)
		return 2
	}
	var v Violation
	if err := json.Unmarshal(b, &v); err != nil {
		fmt.Println("bad replay file:", err)
		return 2
	}
	e := newEngine(v.Property, v.N, v.K, 1, "", 0)
	last := len(v.Steps) - 1
	e.behaviour(v.Steps, func(i int) *Obs {
		if i == last {
			return v.Obs
		}
		return nil
	})
	if verbose {
		out, _ := json.MarshalIndent(e.sum, "", " ")
		fmt.Println(string(out))
	}
	if e.sum.NViol > 0 {
		fmt.Printf("reproduced: %s\n", e.sum.Violations[0].Why)
		return 1
	}
	fmt.Println("not reproduced")
	return 0
}
