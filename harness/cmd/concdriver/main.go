// Command concdriver runs real PARALLEL executions of the server (C12): several real clients call
// ProcessPushPull at the same time, each call with its own request context that is cancelled when the
// call returns (as gRPC does), with seeded random delays in front of every database command. It records
// an ndjson trace per datatype (open / local / call / ret / apply / store / client / reset events, in the
// order the harness observed them under its own mutex) that TLC validates against OrdaSyncTrace: the run
// must equal some one-at-a-time order of the requests of that datatype.
//
// Three shapes of rounds:
//
//	burst      every exchange releases the calls of several clients at the same moment and waits for all
//	staggered  every client syncs several times in a row on its own, starting at random moments: requests
//	           arrive while others hold the key's lock, wait for it, or have just released it
//	multi      every client has two datatypes and sends both packs in one message, in random order (what
//	           Client.Sync does); the packs of a message are handled in parallel by the server
//
// Hangs, panics and a dying process are reported by the driver itself.
package main

import (
	"encoding/json"
	"flag"
	"fmt"
	"math/rand"
	"os"
	"sort"
	"sync"
	"syscall"
	"time"

	"github.com/orda-io/orda/client/pkg/model"
	"github.com/orda-io/orda/client/pkg/orda"
	"google.golang.org/protobuf/proto"

	"verifharness/stack"
)

type ev map[string]interface{}

type Violation struct {
	Property string `json:"property"`
	Kind     string `json:"kind"`
	Class    string `json:"class"`
	Why      string `json:"why"`
	Steps    []ev   `json:"steps"`
	Hash     string `json:"hash"`
	Tool     string `json:"tool"`
	Seed     int64  `json:"seed"`
	Round    int    `json:"round"`
}

func kindOf(p *model.PushPullPack) string {
	o := p.GetPushPullPackOption()
	switch {
	case o.HasErrorBit():
		return "error"
	case o.HasSubscribeBit():
		return "subscribed"
	case o.HasCreateBit():
		return "created"
	}
	return "normal"
}

// a request that is not answered within this time counts as hanging (a loaded machine answers late, not never)
var deadline = stack.Patience(12 * time.Second)

// round is one world: a fresh store and server, n clients, nk datatypes each.
type round struct {
	r      int
	seed   int64
	rng    *rand.Rand
	st     *stack.Stack
	n, nk  int
	keys   []string
	cls    map[int]*stack.Client
	dts    map[int][]*stack.DT // client -> datatype per key index
	cuid   map[string]int
	nlocal map[[2]int]int
	mu     sync.Mutex
	trace  [][]ev // per key index
	nextID []int  // per key index
	viol   *[]Violation
	failed bool
	ncalls int
	npar   int
	nreg   int
}

func (w *round) emit(k int, e ev) {
	w.mu.Lock()
	w.trace[k] = append(w.trace[k], e)
	w.mu.Unlock()
}

func (w *round) fail(class, why string) {
	w.mu.Lock()
	defer w.mu.Unlock()
	if w.failed {
		return
	}
	w.failed = true
	var all []ev
	for _, t := range w.trace {
		all = append(all, t...)
	}
	*w.viol = append(*w.viol, Violation{Property: "C12", Kind: "counter", Class: class, Why: why, Steps: all, Tool: "concdriver", Seed: w.seed, Round: w.r,
		Hash: fmt.Sprintf("conc-%d-%d", w.seed, w.r)})
}

func (w *round) delays(on bool) {
	if !on {
		w.st.FM.Gate = nil
		return
	}
	var dmu sync.Mutex
	drng := rand.New(rand.NewSource(w.seed*1000 + int64(w.r)))
	w.st.FM.Gate = func(name, coll string) {
		dmu.Lock()
		d := time.Duration(drng.Intn(300)) * time.Microsecond
		dmu.Unlock()
		if d > 50*time.Microsecond {
			time.Sleep(d)
		}
	}
}

// syncOnce: client c sends one message with the packs of the given key indexes (in that order), waits for
// the answer and applies it. Events are emitted per key, under the harness mutex, at the moment they happen.
func (w *round) syncOnce(c int, ks []int) bool {
	var packs []*model.PushPullPack
	ids := map[int]int{}
	w.mu.Lock()
	for _, k := range ks {
		d := w.dts[c][k]
		pack := d.DT.CreatePushPullPack()
		packs = append(packs, pack)
		w.nextID[k]++
		ids[k] = w.nextID[k]
		w.trace[k] = append(w.trace[k], ev{"event": "call", "id": ids[k], "c": c, "nops": len(pack.Operations), "cps": pack.CheckPoint.Sseq, "cpc": pack.CheckPoint.Cseq})
		w.ncalls++
	}
	w.mu.Unlock()
	msg := model.NewPushPullMessage(uint32(w.ncalls), w.cls[c].Model, packs...)
	res := w.st.Serve(stack.Marshal(msg), deadline)
	got := map[string]*model.PushPullPack{}
	if res.Resp != nil {
		out := &model.PushPullMessage{}
		proto.Unmarshal(res.Resp, out)
		for _, p := range out.PushPullPacks {
			got[p.Key] = p
		}
	}
	w.mu.Lock()
	for _, k := range ks {
		e := ev{"event": "ret", "id": ids[k], "c": c}
		if p := got[w.keys[k]]; p != nil {
			e["kind"], e["cps"], e["cpc"], e["nops"] = kindOf(p), p.CheckPoint.Sseq, p.CheckPoint.Cseq, len(p.Operations)
		} else if res.Resp != nil {
			e["kind"] = "empty"
		} else {
			e["kind"] = "rpcerror"
		}
		w.trace[k] = append(w.trace[k], e)
	}
	w.mu.Unlock()
	if res.Timeout {
		w.fail("hang", fmt.Sprintf("a request of client %d was not answered within %v", c, deadline))
		return false
	}
	if res.Panic != "" {
		w.fail("panic", "the server panicked: "+res.Panic)
		return false
	}
	if res.Resp == nil {
		return true
	}
	for _, k := range ks {
		if got[w.keys[k]] == nil {
			continue
		}
		if _, pan := w.dts[c][k].Apply(res.Resp); pan != "" {
			w.fail("panic", "the client panicked applying a response: "+pan)
			return false
		}
		w.emit(k, ev{"event": "apply", "id": ids[k], "c": c})
	}
	return true
}

// burst: the calls of several clients (one key) are released at the same moment; all are applied afterwards
// in random order.
func (w *round) burst(who []int, k int) bool {
	type pend struct {
		c, id int
		req   []byte
		res   stack.ServeResult
	}
	var ps []*pend
	w.mu.Lock()
	for _, c := range who {
		d := w.dts[c][k]
		pack := d.DT.CreatePushPullPack()
		w.nextID[k]++
		p := &pend{c: c, id: w.nextID[k], req: d.Request()}
		ps = append(ps, p)
		w.trace[k] = append(w.trace[k], ev{"event": "call", "id": p.id, "c": c, "nops": len(pack.Operations), "cps": pack.CheckPoint.Sseq, "cpc": pack.CheckPoint.Cseq})
		w.ncalls++
	}
	w.mu.Unlock()
	if len(who) > 1 {
		w.npar++
	}
	start := make(chan struct{})
	var wg sync.WaitGroup
	for _, p := range ps {
		p := p
		wg.Add(1)
		go func() {
			defer wg.Done()
			<-start
			p.res = w.st.Serve(p.req, deadline)
			e := ev{"event": "ret", "id": p.id, "c": p.c}
			if p.res.Resp != nil {
				msg := &model.PushPullMessage{}
				proto.Unmarshal(p.res.Resp, msg)
				if len(msg.PushPullPacks) == 1 {
					q := msg.PushPullPacks[0]
					e["kind"], e["cps"], e["cpc"], e["nops"] = kindOf(q), q.CheckPoint.Sseq, q.CheckPoint.Cseq, len(q.Operations)
				} else {
					e["kind"] = "empty"
				}
			} else {
				e["kind"] = "rpcerror"
			}
			w.emit(k, e)
		}()
	}
	close(start)
	wg.Wait()
	for _, p := range ps {
		if p.res.Timeout {
			w.fail("hang", fmt.Sprintf("a request of client %d was not answered within %v while %d requests were in flight", p.c, deadline, len(who)))
			return false
		}
		if p.res.Panic != "" {
			w.fail("panic", "the server panicked: "+p.res.Panic)
			return false
		}
	}
	w.rng.Shuffle(len(ps), func(i, j int) { ps[i], ps[j] = ps[j], ps[i] })
	for _, p := range ps {
		if p.res.Resp == nil {
			continue
		}
		if _, pan := w.dts[p.c][k].Apply(p.res.Resp); pan != "" {
			w.fail("panic", "the client panicked applying a response: "+pan)
			return false
		}
		w.emit(k, ev{"event": "apply", "id": p.id, "c": p.c})
	}
	return true
}

func (w *round) local(c, k int) {
	key := [2]int{c, k}
	w.mu.Lock()
	if w.nlocal[key] >= 3 {
		w.mu.Unlock()
		return
	}
	w.nlocal[key]++
	idx := (c-1)*3 + w.nlocal[key] - 1
	w.dts[c][k].Counter.IncreaseBy(int32(1) << (2 * uint(idx)))
	w.trace[k] = append(w.trace[k], ev{"event": "local", "c": c})
	w.mu.Unlock()
}

// quiescent point: the store and every client as read from the real objects
func (w *round) snapshotState() {
	w.delays(false)
	store := w.st.ReadStore()
	for k := 0; k < w.nk; k++ {
		for _, dr := range store.Datatypes {
			if dr.Key != w.keys[k] {
				continue
			}
			lg := [][]int{}
			ops := append([]stack.OpRow{}, store.Ops[dr.DUID]...)
			sort.Slice(ops, func(i, j int) bool { return ops[i].Sseq < ops[j].Sseq })
			for _, o := range ops {
				lg = append(lg, []int{w.cuid[o.CUID], int(o.Seq)})
			}
			scp := make([][]int, 4)
			for c := 1; c <= 4; c++ {
				scp[c-1] = []int{-1, -1}
				if cl, okc := w.cls[c]; okc {
					if cp, has := dr.CP[cl.Model.CUID]; has {
						scp[c-1] = []int{int(cp[0]), int(cp[1])}
					}
				}
			}
			w.emit(k, ev{"event": "store", "log": lg, "end": dr.End, "scp": scp})
		}
		for c := 1; c <= w.n; c++ {
			pack := w.dts[c][k].DT.CreatePushPullPack()
			v := uint32(w.dts[c][k].Counter.Get())
			held := [][]int{}
			for idx := 0; idx < 12; idx++ {
				if d := (v >> (2 * uint(idx))) & 3; d != 0 {
					oc := idx/3 + 1
					kk := idx%3 + 1
					seq := kk
					if oc == 1 {
						seq = kk + 1
					}
					for m := 0; m < int(d); m++ {
						held = append(held, []int{oc, seq})
					}
				}
			}
			w.emit(k, ev{"event": "client", "c": c, "cps": pack.CheckPoint.Sseq, "seq": pack.CheckPoint.Cseq, "held": held})
		}
	}
	w.delays(true)
}

func main() {
	rounds := flag.Int("rounds", 20, "rounds (one world each)")
	seed := flag.Int64("seed", 1, "seed")
	out := flag.String("out", "trace.ndjson", "trace file")
	nmax := flag.Int("clients", 4, "clients per round (2..4)")
	entry := flag.Int("entry", 0, "run only this many ENTRY rounds (all clients enter one new key by SubscribeOrCreate at the same time) instead of the parallel rounds")
	big := flag.Int("big", 0, "run only this many LONG histories (a client far behind a long log, more pending operations than fit one buffer) instead of the parallel rounds")
	flag.Parse()
	if os.Getenv("VERIF_STDERR") == "" {
		if dn, err := os.OpenFile("/dev/null", os.O_WRONLY, 0); err == nil {
			syscall.Dup2(int(dn.Fd()), 2)
		}
	}
	rng := rand.New(rand.NewSource(*seed))
	f, err := os.Create(*out)
	if err != nil {
		fmt.Println(`{"error":"cannot create trace file"}`)
		os.Exit(3)
	}
	enc := json.NewEncoder(f)
	var viol []Violation
	// a round in which a request was not answered is reported as such; its cut-off trace is not validated as well
	hung := func(vs []Violation) bool {
		for _, v := range vs {
			if v.Class == "hang" {
				return true
			}
		}
		return false
	}
	nevents, ncalls, nparallel, nregs := 0, 0, 0, 0
	shapes := map[string]int{}
	if *entry > 0 {
		for r := 0; r < *entry; r++ {
			shapes["entry"]++
			evs, calls, v := entryRound(r, *seed, rng)
			if len(evs) == 0 || evs[len(evs)-1]["event"] != "reset" { // a round cut short
				evs = append(evs, ev{"event": "reset"})
			}
			for _, e := range evs {
				if hung(v) && e["event"] != "reset" {
					continue
				}
				enc.Encode(e)
				nevents++
			}
			ncalls += calls
			viol = append(viol, v...)
		}
		*rounds = 0
		*big = 0
	}
	if *big > 0 {
		for r := 0; r < *big; r++ {
			shapes["big"]++
			evs, calls, v := bigRound(r, *seed, rng)
			if len(evs) == 0 || evs[len(evs)-1]["event"] != "reset" { // a round cut short
				evs = append(evs, ev{"event": "reset"})
			}
			for _, e := range evs {
				if hung(v) && e["event"] != "reset" {
					continue
				}
				enc.Encode(e)
				nevents++
			}
			ncalls += calls
			viol = append(viol, v...)
		}
		*rounds = 0
	}
	for r := 0; r < *rounds; r++ {
		shape := []string{"burst", "staggered", "multi"}[r%3]
		shapes[shape]++
		nviol0 := len(viol)
		st, err := stack.New()
		if err != nil {
			fmt.Printf(`{"error":"stack: %s"}`+"\n", err)
			os.Exit(3)
		}
		st.CreateCollection("col")
		w := &round{r: r, seed: *seed, rng: rng, st: st, n: 2 + rng.Intn(*nmax-1), nk: 1, cls: map[int]*stack.Client{}, dts: map[int][]*stack.DT{},
			cuid: map[string]int{}, nlocal: map[[2]int]int{}, viol: &viol}
		if shape == "multi" {
			w.nk = 2
		}
		if shape == "staggered" && w.n < 3 {
			w.n = 3 // a holder, a waiter and a late arrival
		}
		for k := 0; k < w.nk; k++ {
			w.keys = append(w.keys, fmt.Sprintf("k%d_%d", r, k))
		}
		w.trace = make([][]ev, w.nk)
		w.nextID = make([]int, w.nk)
		w.delays(true)
		ok := true
		for c := 1; c <= w.n && ok; c++ {
			cl := stack.NewClient("col", fmt.Sprintf("c%d", c))
			mode := "dueSub"
			if c == 1 {
				mode = "dueCreate"
			}
			for k := 0; k < w.nk; k++ {
				d := cl.Open("counter", w.keys[k], mode)
				w.dts[c] = append(w.dts[c], d)
				w.emit(k, ev{"event": "open", "c": c, "mode": mode})
			}
			if err := st.Register(cl); err != nil {
				fmt.Printf(`{"error":"register: %s"}`+"\n", err)
				os.Exit(3)
			}
			w.cls[c] = cl
			w.cuid[cl.Model.CUID] = c
			if c == 1 { // the datatypes exist before anybody subscribes
				for k := 0; k < w.nk && ok; k++ {
					ok = w.burst([]int{1}, k)
				}
			}
		}
		// the subscribers subscribe at the same moment
		var subs []int
		for c := 2; c <= w.n; c++ {
			subs = append(subs, c)
		}
		for k := 0; k < w.nk && ok && len(subs) > 0; k++ {
			ok = w.burst(subs, k)
		}
		phases := 2 + rng.Intn(3)
		for ph := 0; ph < phases && ok; ph++ {
			switch shape {
			case "burst":
				var who []int
				for c := 1; c <= w.n; c++ {
					for j := rng.Intn(3); j > 0; j-- {
						w.local(c, 0)
					}
					if rng.Intn(4) > 0 {
						who = append(who, c)
					}
				}
				if len(who) == 0 {
					who = []int{1}
				}
				ok = w.burst(who, 0)
			default:
				// every client works on its own: a few syncs in a row, starting at random moments
				var wg sync.WaitGroup
				plans := map[int][][]int{}
				starts := map[int]time.Duration{}
				gaps := map[int][]time.Duration{}
				locals := map[int][][2]int{}
				for c := 1; c <= w.n; c++ {
					m := 1 + rng.Intn(3)
					for j := 0; j < m; j++ {
						ks := []int{0}
						if w.nk == 2 {
							switch rng.Intn(4) {
							case 0:
								ks = []int{0, 1}
							case 1:
								ks = []int{1, 0}
							case 2:
								ks = []int{1}
							}
						}
						plans[c] = append(plans[c], ks)
						gaps[c] = append(gaps[c], time.Duration(rng.Intn(1500))*time.Microsecond)
						locals[c] = append(locals[c], [2]int{rng.Intn(2), rng.Intn(w.nk)})
					}
					starts[c] = time.Duration(rng.Intn(2500)) * time.Microsecond
				}
				w.npar++
				okAll := true
				var okMu sync.Mutex
				// registrations (ProcessClient) of other clients, and re-registrations of the syncing ones, arrive in the
				// same moments: each must return without an error and leaves the datatypes alone (the trace says so)
				nreg := rng.Intn(3)
				regStarts := make([]time.Duration, nreg)
				regWho := make([]int, nreg)
				for j := range regStarts {
					regStarts[j] = time.Duration(rng.Intn(3000)) * time.Microsecond
					regWho[j] = rng.Intn(w.n + 1) // 0: a new client
				}
				for j := 0; j < nreg; j++ {
					j := j
					wg.Add(1)
					go func() {
						defer wg.Done()
						time.Sleep(regStarts[j])
						cl := w.cls[regWho[j]]
						if cl == nil {
							cl = stack.NewClient("col", fmt.Sprintf("x%d_%d_%d", w.r, w.npar, j))
							cl.Open("counter", fmt.Sprintf("unused%d_%d_%d", w.r, w.npar, j), "dueCreate")
						}
						done := make(chan error, 1)
						go func() { done <- w.st.Register(cl) }()
						select {
						case err := <-done:
							if err != nil {
								w.fail("error", "a client registration (ProcessClient) in the middle of parallel syncs failed: "+err.Error())
							}
						case <-time.After(deadline):
							w.fail("hang", fmt.Sprintf("a client registration (ProcessClient) in the middle of parallel syncs did not return within %v", deadline))
						}
						w.mu.Lock()
						w.nreg++
						w.mu.Unlock()
					}()
				}
				for c := 1; c <= w.n; c++ {
					c := c
					wg.Add(1)
					go func() {
						defer wg.Done()
						time.Sleep(starts[c])
						for j, ks := range plans[c] {
							if locals[c][j][0] == 1 {
								w.local(c, locals[c][j][1])
							}
							if !w.syncOnce(c, ks) {
								okMu.Lock()
								okAll = false
								okMu.Unlock()
								return
							}
							time.Sleep(gaps[c][j])
						}
					}()
				}
				wg.Wait()
				ok = okAll
			}
			if !ok {
				break
			}
			w.snapshotState()
		}
		for k := 0; k < w.nk; k++ {
			w.trace[k] = append(w.trace[k], ev{"event": "reset"})
			for _, e := range w.trace[k] {
				if hung(viol[nviol0:]) && e["event"] != "reset" {
					continue
				}
				enc.Encode(e)
				nevents++
			}
		}
		ncalls += w.ncalls
		nparallel += w.npar
		nregs += w.nreg
		st.Close()
	}
	f.Close()
	if *big > 0 {
		*rounds = *big
	}
	if *entry > 0 {
		*rounds = *entry
	}
	sum := map[string]interface{}{"rounds": *rounds, "events": nevents, "calls": ncalls, "parallel_exchanges": nparallel, "registrations_in_parallel": nregs, "shapes": shapes, "nviol": len(viol), "violations": viol}
	b, _ := json.Marshal(sum)
	fmt.Println(string(b))
	if len(viol) > 0 {
		os.Exit(1)
	}
}

// bigRound: one LONG sequential history on a List (tagged elements, so that what a client holds is readable):
// client 2 subscribes and goes offline; client 1 pushes more than a thousand operations in batches; client 2 comes
// back with one operation; then client 1 gathers more pending operations than one buffer holds, with a transaction
// lying across the 1024th, and client 2 pulls in between client 1's syncs. Events as in the parallel rounds; at the
// end the lists of both clients and the list the server rebuilds must be equal.
func bigRound(r int, seed int64, rng *rand.Rand) (trace []ev, ncalls int, viol []Violation) {
	st, err := stack.New()
	if err != nil {
		fmt.Printf(`{"error":"stack: %s"}`+"\n", err)
		os.Exit(3)
	}
	defer st.Close()
	st.CreateCollection("col")
	key := fmt.Sprintf("big%d", r)
	cls := map[int]*stack.Client{}
	dts := map[int]*stack.DT{}
	cuid := map[string]int{}
	headers := map[[2]int]int{} // (client, header seq) -> operations of the unit
	nextID := 0
	emit := func(e ev) { trace = append(trace, e) }
	fail := func(class, why string) {
		viol = append(viol, Violation{Property: "C12", Kind: "list", Class: class, Why: why, Steps: tail(trace, 40), Tool: "concdriver", Seed: seed, Round: r,
			Hash: fmt.Sprintf("big-%d-%d", seed, r)})
	}
	seqOf := func(c int) int { return int(dts[c].DT.CreatePushPullPack().CheckPoint.Cseq) }
	local := func(c int) {
		n := seqOf(c) + 1
		dts[c].List.Insert(dts[c].List.Size(), fmt.Sprintf("c%ds%d", c, n))
		emit(ev{"event": "local", "c": c})
	}
	tx := func(c, n int) {
		h := seqOf(c) + 1
		dts[c].List.Transaction("t", func(l orda.ListInTx) error {
			for j := 1; j <= n; j++ {
				l.Insert(l.Size(), fmt.Sprintf("c%ds%d", c, h+j))
			}
			return nil
		})
		headers[[2]int{c, h}] = n
		for j := 0; j <= n; j++ {
			emit(ev{"event": "local", "c": c})
		}
	}
	sync := func(c int) bool {
		d := dts[c]
		pack := d.DT.CreatePushPullPack()
		nextID++
		id := nextID
		emit(ev{"event": "call", "id": id, "c": c, "nops": len(pack.Operations), "cps": pack.CheckPoint.Sseq, "cpc": pack.CheckPoint.Cseq})
		ncalls++
		res := st.Serve(d.Request(), deadline)
		e := ev{"event": "ret", "id": id, "c": c}
		if res.Resp != nil {
			msg := &model.PushPullMessage{}
			proto.Unmarshal(res.Resp, msg)
			if len(msg.PushPullPacks) == 1 {
				q := msg.PushPullPacks[0]
				e["kind"], e["cps"], e["cpc"], e["nops"] = kindOf(q), q.CheckPoint.Sseq, q.CheckPoint.Cseq, len(q.Operations)
			} else {
				e["kind"] = "empty"
			}
		} else {
			e["kind"] = "rpcerror"
		}
		emit(e)
		if res.Timeout || res.Panic != "" {
			fail("hang", "a request of a long history was not answered: "+res.Panic)
			return false
		}
		if res.Resp != nil {
			if _, pan := d.Apply(res.Resp); pan != "" {
				fail("panic", "the client panicked applying a response: "+pan)
				return false
			}
			emit(ev{"event": "apply", "id": id, "c": c})
		}
		return true
	}
	state := func() {
		st.FM.WaitIdle(20*time.Millisecond, 3*time.Second)
		store := st.ReadStore()
		if len(store.Datatypes) == 1 {
			dr := store.Datatypes[0]
			lg := [][]int{}
			ops := append([]stack.OpRow{}, store.Ops[dr.DUID]...)
			sort.Slice(ops, func(i, j int) bool { return ops[i].Sseq < ops[j].Sseq })
			for _, o := range ops {
				lg = append(lg, []int{cuid[o.CUID], int(o.Seq)})
			}
			scp := make([][]int, 4)
			for c := 1; c <= 4; c++ {
				scp[c-1] = []int{-1, -1}
				if cl, okc := cls[c]; okc {
					if cp, has := dr.CP[cl.Model.CUID]; has {
						scp[c-1] = []int{int(cp[0]), int(cp[1])}
					}
				}
			}
			emit(ev{"event": "store", "log": lg, "end": dr.End, "scp": scp})
		}
		for c := 1; c <= 2; c++ {
			pack := dts[c].DT.CreatePushPullPack()
			held := [][]int{}
			have := map[[2]int]bool{}
			n := dts[c].List.Size()
			if n > 0 {
				vs, _ := dts[c].List.GetMany(0, n)
				for _, v := range vs {
					var oc, sq int
					if _, err := fmt.Sscanf(fmt.Sprint(v), "c%ds%d", &oc, &sq); err == nil {
						held = append(held, []int{oc, sq})
						have[[2]int{oc, sq}] = true
					}
				}
			}
			for h, cnt := range headers { // a unit's header operation is held when its operations are
				all := true
				for j := 1; j <= cnt; j++ {
					all = all && have[[2]int{h[0], h[1] + j}]
				}
				if all {
					held = append(held, []int{h[0], h[1]})
				}
			}
			emit(ev{"event": "client", "c": c, "cps": pack.CheckPoint.Sseq, "seq": pack.CheckPoint.Cseq, "held": held})
		}
	}
	for c := 1; c <= 2; c++ {
		cl := stack.NewClient("col", fmt.Sprintf("c%d", c))
		mode := "dueSub"
		if c == 1 {
			mode = "dueCreate"
		}
		dts[c] = cl.Open("list", key, mode)
		if err := st.Register(cl); err != nil {
			fmt.Printf(`{"error":"register: %s"}`+"\n", err)
			os.Exit(3)
		}
		cls[c] = cl
		cuid[cl.Model.CUID] = c
		emit(ev{"event": "open", "c": c, "mode": mode})
		if !sync(c) {
			return
		}
	}
	// client 2 is offline while client 1 pushes a long log in batches
	batches := 11 + rng.Intn(3)
	for b := 0; b < batches; b++ {
		for j := 0; j < 100; j++ {
			local(1)
		}
		if !sync(1) {
			return
		}
	}
	local(2)
	if !sync(2) || !sync(1) || !sync(2) {
		return
	}
	state()
	// more pending operations than one buffer holds, a transaction across the 1024th; client 2 pulls in between
	before := 1015 + rng.Intn(8)
	for j := 0; j < before; j++ {
		local(1)
	}
	tx(1, 6+rng.Intn(6))
	for j := 0; j < 5; j++ {
		local(1)
	}
	if !sync(1) || !sync(2) || !sync(1) || !sync(2) || !sync(1) {
		return
	}
	state()
	v1, _ := json.Marshal(dts[1].List.ToJSON())
	v2, _ := json.Marshal(dts[2].List.ToJSON())
	view, _, rerr := st.Rebuild("col", 1, dts[1].DT.GetDUID())
	vs, _ := json.Marshal(view)
	if string(v1) != string(v2) || rerr != nil || string(vs) != string(v1) {
		fail("mismatch", fmt.Sprintf("after a long history everybody has synced with nothing left to push or pull, but the lists differ (client 1: %d elements, client 2: %d, server rebuild error: %v)", dts[1].List.Size(), dts[2].List.Size(), rerr))
	}
	emit(ev{"event": "reset"})
	return
}

func tail(t []ev, n int) []ev {
	if len(t) > n {
		return t[len(t)-n:]
	}
	return t
}

// entryRound: 2-4 clients enter one NEW key by SubscribeOrCreate and make their first syncs at (almost) the same moment,
// some of them after local work; then they go on syncing on their own. Exactly one of them may end up as the creator.
// Events as in the other rounds (one trace, validated with a configuration in which every client enters by
// SubscribeOrCreate); what every client holds is read from its counter (two bits per operation).
func entryRound(r int, seed int64, rng *rand.Rand) (trace []ev, ncalls int, viol []Violation) {
	st, err := stack.New()
	if err != nil {
		fmt.Printf(`{"error":"stack: %s"}`+"\n", err)
		os.Exit(3)
	}
	defer st.Close()
	st.CreateCollection("col")
	var mu sync.Mutex
	n := 2 + rng.Intn(3)
	key := fmt.Sprintf("entry%d", r)
	cls := map[int]*stack.Client{}
	dts := map[int]*stack.DT{}
	cuid := map[string]int{}
	type digit struct{ c, seq int }
	var digits []digit
	nextID := 0
	failed := false
	emit := func(e ev) { mu.Lock(); trace = append(trace, e); mu.Unlock() }
	fail := func(class, why string) {
		mu.Lock()
		defer mu.Unlock()
		if failed {
			return
		}
		failed = true
		viol = append(viol, Violation{Property: "C13", Kind: "counter", Class: class, Why: why, Steps: tail(trace, 60), Tool: "concdriver", Seed: seed, Round: r,
			Hash: fmt.Sprintf("entry-%d-%d", seed, r)})
	}
	var dmu sync.Mutex
	drng := rand.New(rand.NewSource(seed*977 + int64(r)))
	delays := func(on bool) {
		if !on {
			st.FM.Gate = nil
			return
		}
		st.FM.Gate = func(name, coll string) {
			dmu.Lock()
			d := time.Duration(drng.Intn(400)) * time.Microsecond
			dmu.Unlock()
			if d > 50*time.Microsecond {
				time.Sleep(d)
			}
		}
	}
	local := func(c int) {
		mu.Lock()
		defer mu.Unlock()
		if len(digits) >= 15 {
			return
		}
		d := dts[c]
		d.Counter.IncreaseBy(int32(1) << (2 * uint(len(digits))))
		digits = append(digits, digit{c, int(d.DT.CreatePushPullPack().CheckPoint.Cseq)})
		trace = append(trace, ev{"event": "local", "c": c})
	}
	syncOnce := func(c int) bool {
		d := dts[c]
		mu.Lock()
		pack := d.DT.CreatePushPullPack()
		nextID++
		id := nextID
		req := d.Request()
		trace = append(trace, ev{"event": "call", "id": id, "c": c, "nops": len(pack.Operations), "cps": pack.CheckPoint.Sseq, "cpc": pack.CheckPoint.Cseq})
		ncalls++
		mu.Unlock()
		res := st.Serve(req, deadline)
		e := ev{"event": "ret", "id": id, "c": c}
		if res.Resp != nil {
			msg := &model.PushPullMessage{}
			proto.Unmarshal(res.Resp, msg)
			if len(msg.PushPullPacks) == 1 {
				q := msg.PushPullPacks[0]
				e["kind"], e["cps"], e["cpc"], e["nops"] = kindOf(q), q.CheckPoint.Sseq, q.CheckPoint.Cseq, len(q.Operations)
			} else {
				e["kind"] = "empty"
			}
		} else {
			e["kind"] = "rpcerror"
		}
		emit(e)
		if res.Timeout || res.Panic != "" {
			fail("hang", "a first sync was not answered: "+res.Panic)
			return false
		}
		if res.Resp != nil {
			if _, pan := d.Apply(res.Resp); pan != "" {
				fail("panic", "the client panicked applying a response: "+pan)
				return false
			}
			emit(ev{"event": "apply", "id": id, "c": c})
		}
		return true
	}
	state := func() {
		delays(false)
		st.FM.WaitIdle(10*time.Millisecond, 2*time.Second)
		store := st.ReadStore()
		nkey := 0
		for _, dr := range store.Datatypes {
			if dr.Key != key {
				continue
			}
			nkey++
			lg := [][]int{}
			ops := append([]stack.OpRow{}, store.Ops[dr.DUID]...)
			sort.Slice(ops, func(i, j int) bool { return ops[i].Sseq < ops[j].Sseq })
			for _, o := range ops {
				lg = append(lg, []int{cuid[o.CUID], int(o.Seq)})
			}
			scp := make([][]int, 4)
			for c := 1; c <= 4; c++ {
				scp[c-1] = []int{-1, -1}
				if cl, okc := cls[c]; okc {
					if cp, has := dr.CP[cl.Model.CUID]; has {
						scp[c-1] = []int{int(cp[0]), int(cp[1])}
					}
				}
			}
			emit(ev{"event": "store", "log": lg, "end": dr.End, "scp": scp})
		}
		if nkey != 1 {
			fail("mismatch", fmt.Sprintf("%d datatypes are stored for one collection and key after racing SubscribeOrCreate entries", nkey))
		}
		for c := 1; c <= n; c++ {
			pack := dts[c].DT.CreatePushPullPack()
			v := uint32(dts[c].Counter.Get())
			held := [][]int{}
			for idx, dg := range digits {
				for m := 0; m < int((v>>(2*uint(idx)))&3); m++ {
					held = append(held, []int{dg.c, dg.seq})
				}
			}
			emit(ev{"event": "client", "c": c, "cps": pack.CheckPoint.Sseq, "seq": pack.CheckPoint.Cseq, "held": held})
			states, errs, _ := dts[c].Ev.Snapshot()
			nsub := 0
			for _, s := range states {
				if len(s) > 12 && s[len(s)-12:] == "->SUBSCRIBED" {
					nsub++
				}
			}
			if nsub != 1 || len(errs) != 0 {
				fail("mismatch", fmt.Sprintf("client %d: the transition to SUBSCRIBED was reported %d times, %d errors were reported (a SubscribeOrCreate entry is never refused)", c, nsub, len(errs)))
			}
		}
		delays(true)
	}
	for c := 1; c <= n; c++ {
		cl := stack.NewClient("col", fmt.Sprintf("c%d", c))
		dts[c] = cl.Open("counter", key, "dueSubCreate")
		if err := st.Register(cl); err != nil {
			fmt.Printf(`{"error":"register: %s"}`+"\n", err)
			os.Exit(3)
		}
		cls[c] = cl
		cuid[cl.Model.CUID] = c
		emit(ev{"event": "open", "c": c, "mode": "dueSubCreate"})
	}
	delays(true)
	var wg sync.WaitGroup
	okAll := true
	plans := map[int][3]int{}
	starts := map[int]time.Duration{}
	for c := 1; c <= n; c++ {
		plans[c] = [3]int{rng.Intn(3), rng.Intn(2), 2 + rng.Intn(2)}
		starts[c] = time.Duration(rng.Intn(600)) * time.Microsecond
	}
	for c := 1; c <= n; c++ {
		c := c
		wg.Add(1)
		go func() {
			defer wg.Done()
			for j := 0; j < plans[c][0]; j++ {
				local(c) // work before the first sync
			}
			time.Sleep(starts[c])
			for j := 0; j < plans[c][2]; j++ {
				if !syncOnce(c) {
					mu.Lock()
					okAll = false
					mu.Unlock()
					return
				}
				if j == 0 && plans[c][1] == 1 {
					local(c)
				}
			}
		}()
	}
	wg.Wait()
	if okAll {
		// everybody syncs twice more, one after the other: settled
		for k := 0; k < 2 && okAll; k++ {
			for c := 1; c <= n && okAll; c++ {
				okAll = syncOnce(c)
			}
		}
	}
	if okAll {
		state()
	}
	emit(ev{"event": "reset"})
	return
}
