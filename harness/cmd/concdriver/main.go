// Command concdriver runs real PARALLEL executions of the server (C12): several real clients call
// ProcessPushPull on one datatype at the same moment, each call with its own request context that
// is cancelled when the call returns (as gRPC does), with seeded random delays in front of every
// database command. It records an ndjson trace (open / local / call / ret / apply / store / client /
// reset events, in the order the harness observed them under its own mutex) that TLC validates
// against OrdaSyncTrace: the run must equal some one-at-a-time order of the requests.
// Hangs, panics and a dying process are reported by the driver itself.
package main

import (
	"encoding/json"
	"flag"
	"fmt"
	"math/rand"
	"os"
	"sort"
	"sync"
	"syscall"
	"time"

	"github.com/orda-io/orda/client/pkg/model"
	"google.golang.org/protobuf/proto"

	"verifharness/stack"
)

type ev map[string]interface{}

type Violation struct {
	Property string `json:"property"`
	Kind     string `json:"kind"`
	Class    string `json:"class"`
	Why      string `json:"why"`
	Steps    []ev   `json:"steps"`
	Hash     string `json:"hash"`
	Tool     string `json:"tool"`
	Seed     int64  `json:"seed"`
	Round    int    `json:"round"`
}

func kindOf(p *model.PushPullPack) string {
	o := p.GetPushPullPackOption()
	switch {
	case o.HasErrorBit():
		return "error"
	case o.HasSubscribeBit():
		return "subscribed"
	case o.HasCreateBit():
		return "created"
	}
	return "normal"
}

func main() {
	rounds := flag.Int("rounds", 20, "rounds (one datatype each)")
	seed := flag.Int64("seed", 1, "seed")
	out := flag.String("out", "trace.ndjson", "trace file")
	nmax := flag.Int("clients", 4, "clients per round (2..4)")
	flag.Parse()
	if os.Getenv("VERIF_STDERR") == "" {
		if dn, err := os.OpenFile("/dev/null", os.O_WRONLY, 0); err == nil {
			syscall.Dup2(int(dn.Fd()), 2)
		}
	}
	rng := rand.New(rand.NewSource(*seed))
	f, err := os.Create(*out)
	if err != nil {
		fmt.Println(`{"error":"cannot create trace file"}`)
		os.Exit(3)
	}
	enc := json.NewEncoder(f)
	var viol []Violation
	nevents, ncalls, nparallel := 0, 0, 0
	for r := 0; r < *rounds; r++ {
		var trace []ev
		var mu sync.Mutex
		emit := func(e ev) {
			mu.Lock()
			trace = append(trace, e)
			mu.Unlock()
		}
		st, err := stack.New()
		if err != nil {
			fmt.Printf(`{"error":"stack: %s"}`+"\n", err)
			os.Exit(3)
		}
		st.CreateCollection("col")
		// seeded random delay in front of every database command: varies the interleavings of handlers
		var dmu sync.Mutex
		drng := rand.New(rand.NewSource(*seed*1000 + int64(r)))
		st.FM.Gate = func(name, coll string) {
			dmu.Lock()
			d := time.Duration(drng.Intn(300)) * time.Microsecond
			dmu.Unlock()
			if d > 50*time.Microsecond {
				time.Sleep(d)
			}
		}
		n := 2 + rng.Intn(*nmax-1)
		key := fmt.Sprintf("k%d", r)
		cls := map[int]*stack.Client{}
		dts := map[int]*stack.DT{}
		cuid := map[string]int{}
		nlocal := map[int]int{}
		nextID := 0
		fail := func(class, why string) {
			viol = append(viol, Violation{Property: "C12", Kind: "counter", Class: class, Why: why, Steps: trace, Tool: "concdriver", Seed: *seed, Round: r,
				Hash: fmt.Sprintf("conc-%d-%d", *seed, r)})
		}
		type result struct {
			id  int
			c   int
			res stack.ServeResult
		}
		// one exchange of a set of clients, all calls in flight at the same time
		exchange := func(who []int) bool {
			reqs := map[int][]byte{}
			ids := map[int]int{}
			for _, c := range who {
				d := dts[c]
				pack := d.DT.CreatePushPullPack()
				nextID++
				ids[c] = nextID
				reqs[c] = d.Request()
				emit(ev{"event": "call", "id": nextID, "c": c, "nops": len(pack.Operations), "cps": pack.CheckPoint.Sseq, "cpc": pack.CheckPoint.Cseq})
				ncalls++
			}
			if len(who) > 1 {
				nparallel++
			}
			start := make(chan struct{})
			resCh := make(chan result, len(who))
			for _, c := range who {
				c := c
				go func() {
					<-start
					res := st.Serve(reqs[c], 12*time.Second)
					mu.Lock()
					e := ev{"event": "ret", "id": ids[c], "c": c}
					if res.Resp != nil {
						msg := &model.PushPullMessage{}
						proto.Unmarshal(res.Resp, msg)
						if len(msg.PushPullPacks) == 1 {
							p := msg.PushPullPacks[0]
							e["kind"], e["cps"], e["cpc"], e["nops"] = kindOf(p), p.CheckPoint.Sseq, p.CheckPoint.Cseq, len(p.Operations)
						} else {
							e["kind"] = "empty"
						}
					} else {
						e["kind"] = "rpcerror"
					}
					trace = append(trace, e)
					mu.Unlock()
					resCh <- result{ids[c], c, res}
				}()
			}
			close(start)
			var results []result
			for range who {
				rr := <-resCh
				results = append(results, rr)
			}
			for _, rr := range results {
				if rr.res.Timeout {
					fail("hang", fmt.Sprintf("a request of client %d was not answered within 12 s while %d requests were in flight", rr.c, len(who)))
					return false
				}
				if rr.res.Panic != "" {
					fail("panic", "the server panicked: "+rr.res.Panic)
					return false
				}
			}
			rng.Shuffle(len(results), func(i, j int) { results[i], results[j] = results[j], results[i] })
			for _, rr := range results {
				if rr.res.Resp == nil {
					continue
				}
				if _, pan := dts[rr.c].Apply(rr.res.Resp); pan != "" {
					fail("panic", "the client panicked applying a response: "+pan)
					return false
				}
				emit(ev{"event": "apply", "id": rr.id, "c": rr.c})
			}
			return true
		}
		ok := true
		for c := 1; c <= n && ok; c++ {
			cl := stack.NewClient("col", fmt.Sprintf("c%d", c))
			mode := "dueSub"
			if c == 1 {
				mode = "dueCreate"
			}
			d := cl.Open("counter", key, mode)
			if err := st.Register(cl); err != nil {
				fmt.Printf(`{"error":"register: %s"}`+"\n", err)
				os.Exit(3)
			}
			cls[c], dts[c] = cl, d
			cuid[cl.Model.CUID] = c
			emit(ev{"event": "open", "c": c, "mode": mode})
			if c == 1 {
				ok = exchange([]int{1}) // the datatype exists before anybody subscribes
			}
		}
		// the subscribers subscribe at the same moment
		var subs []int
		for c := 2; c <= n; c++ {
			subs = append(subs, c)
		}
		if ok && len(subs) > 0 {
			ok = exchange(subs)
		}
		phases := 2 + rng.Intn(3)
		for ph := 0; ph < phases && ok; ph++ {
			var who []int
			for c := 1; c <= n; c++ {
				k := rng.Intn(3)
				for j := 0; j < k && nlocal[c] < 3; j++ {
					nlocal[c]++
					idx := (c-1)*3 + nlocal[c] - 1
					dts[c].Counter.IncreaseBy(int32(1) << (2 * uint(idx)))
					emit(ev{"event": "local", "c": c})
				}
				if rng.Intn(4) > 0 {
					who = append(who, c)
				}
			}
			if len(who) == 0 {
				who = []int{1}
			}
			ok = exchange(who)
			if !ok {
				break
			}
			// quiescent point: the store and every client as read from the real objects
			st.FM.Gate = nil
			store := st.ReadStore()
			if len(store.Datatypes) == 1 {
				dr := store.Datatypes[0]
				var lg [][]int
				ops := store.Ops[dr.DUID]
				sort.Slice(ops, func(i, j int) bool { return ops[i].Sseq < ops[j].Sseq })
				for _, o := range ops {
					lg = append(lg, []int{cuid[o.CUID], int(o.Seq)})
				}
				scp := make([][]int, 4)
				for c := 1; c <= 4; c++ {
					scp[c-1] = []int{-1, -1}
					if cl, okc := cls[c]; okc {
						if cp, has := dr.CP[cl.Model.CUID]; has {
							scp[c-1] = []int{int(cp[0]), int(cp[1])}
						}
					}
				}
				if lg == nil {
					lg = [][]int{}
				}
				emit(ev{"event": "store", "log": lg, "end": dr.End, "scp": scp})
			}
			for c := 1; c <= n; c++ {
				pack := dts[c].DT.CreatePushPullPack()
				v := uint32(dts[c].Counter.Get())
				held := [][]int{}
				for idx := 0; idx < 12; idx++ {
					if d := (v >> (2 * uint(idx))) & 3; d != 0 {
						oc := idx/3 + 1
						k := idx%3 + 1
						seq := k
						if oc == 1 {
							seq = k + 1
						}
						for m := 0; m < int(d); m++ {
							held = append(held, []int{oc, seq})
						}
					}
				}
				emit(ev{"event": "client", "c": c, "cps": pack.CheckPoint.Sseq, "seq": pack.CheckPoint.Cseq, "held": held})
			}
			st.FM.Gate = func(name, coll string) {
				dmu.Lock()
				d := time.Duration(drng.Intn(300)) * time.Microsecond
				dmu.Unlock()
				if d > 50*time.Microsecond {
					time.Sleep(d)
				}
			}
		}
		emit(ev{"event": "reset"})
		for _, e := range trace {
			enc.Encode(e)
			nevents++
		}
		st.Close()
	}
	f.Close()
	sum := map[string]interface{}{"rounds": *rounds, "events": nevents, "calls": ncalls, "parallel_exchanges": nparallel, "nviol": len(viol), "violations": viol}
	b, _ := json.Marshal(sum)
	fmt.Println(string(b))
	if len(viol) > 0 {
		os.Exit(1)
	}
}
