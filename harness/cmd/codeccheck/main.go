// Command codeccheck runs the grid of OrdaCodec (operation type x value class x batch position)
// through every encode / decode path of the real code (C14): operation -> protocol message ->
// protobuf bytes -> message -> operation; operation document -> BSON -> document -> message; the
// MongoDB repository (insert / find through the fake mongod); the server's encoding-echo service.
// Oracle (code against code): same identifier and type, and the same EFFECT - a second real replica
// that applies the decoded operation shows what the emitting replica shows.
package main

import (
	"bufio"
	gocontext "context"
	"encoding/json"
	"flag"
	"fmt"
	"math"
	"os"
	"reflect"
	"strings"
	"syscall"

	"github.com/orda-io/orda/client/pkg/iface"
	"github.com/orda-io/orda/client/pkg/model"
	"github.com/orda-io/orda/client/pkg/operations"
	"github.com/orda-io/orda/client/pkg/orda"
	"github.com/orda-io/orda/server/schema"
	"go.mongodb.org/mongo-driver/bson"
	"google.golang.org/protobuf/proto"

	"verifharness/replica"
	"verifharness/stack"
	"verifharness/vals"
)

type point struct {
	Type string `json:"type"`
	Cls  string `json:"cls"`
	Pos  string `json:"pos"`
	Idc  string `json:"idc,omitempty"`
}

type Violation struct {
	Property string      `json:"property"`
	Kind     string      `json:"kind"`
	Class    string      `json:"class"`
	Why      string      `json:"why"`
	Steps    []point     `json:"steps"`
	Expected interface{} `json:"expected,omitempty"`
	Observed interface{} `json:"observed,omitempty"`
	Hash     string      `json:"hash"`
	Tool     string      `json:"tool"`
}

type S struct {
	A int               `json:"a"`
	B string            `json:"b"`
	C []float64         `json:"c"`
	D map[string]string `json:"d"`
}

func value(cls string) interface{} {
	i, s := 7, "p"
	switch cls {
	case "int":
		return int(-42)
	case "int8":
		return int8(-128)
	case "int16":
		return int16(32767)
	case "int32":
		return int32(-2147483648)
	case "int64":
		return int64(1) << 40
	case "uint":
		return uint(3000000000)
	case "uint8":
		return uint8(255)
	case "uint16":
		return uint16(65535)
	case "uint32":
		return uint32(4294967295)
	case "uint64":
		return uint64(1) << 50
	case "bigint":
		return int64(1)<<53 + 1
	case "maxuint64":
		return uint64(math.MaxUint64)
	case "negint":
		return int64(math.MinInt64)
	case "float32":
		return float32(1.5)
	case "f32frac": // a float32 that is no float64: 0.1
		return float32(0.1)
	case "nestedbig": // an integer beyond 2^53 INSIDE a container
		return map[string]interface{}{"i": int64(9007199254740993), "l": []interface{}{int64(9007199254740993), float32(0.1)}}
	case "structnum":
		return struct {
			F float32
			I int64
			U uint64
		}{0.1, 9007199254740993, 18446744073709551615}
	case "float64":
		return 3.141592653589793
	case "bigfloat":
		return 1e300
	case "tinyfloat":
		return 5e-324
	case "negzero":
		return math.Copysign(0, -1)
	case "bool":
		return true
	case "str":
		return "plain"
	case "emptystr":
		return ""
	case "unicode":
		return "\u017c\u00f3\u0142\u0107 \ud55c\uad6d\uc5b4 \u03b5\u03bb\u03bb\u03b7\u03bd\u03b9\u03ba\u03ac \u2028\u2029 \ufeff zero\u200bwidth"
	case "emoji":
		return "🐙🧽\U0001F468‍\U0001F469‍\U0001F467"
	case "separators":
		return `,:{}[]"'/\|;=&?#%+ ~1 ~0`
	case "escapes":
		return "tab\tnl\ncr\rquote\"back\\slash\u0000nul<>&"
	case "control":
		return "\x01\x02\x1f\x7f"
	case "longstr":
		return strings.Repeat("long-", 2000)
	case "ptrint":
		return &i
	case "ptrstr":
		return &s
	case "struct":
		return S{A: 1, B: "b", C: []float64{1, 2.5}, D: map[string]string{"k": "v"}}
	case "map":
		return map[string]interface{}{"k1": 1, "k2": "two", "k3": true}
	case "nestedmap":
		return map[string]interface{}{"o": map[string]interface{}{"a": []interface{}{1, "x", map[string]interface{}{"z": 2.5}}}, "e": map[string]interface{}{}}
	case "emptymap":
		return map[string]interface{}{}
	case "slice":
		return []interface{}{1, 2, 3}
	case "emptyslice":
		return []interface{}{}
	case "mixedslice":
		return []interface{}{1, "a", true, 2.5, []interface{}{}, map[string]interface{}{"k": []interface{}{"v"}}}
	case "deep":
		var v interface{} = "leaf"
		for d := 0; d < 12; d++ {
			if d%2 == 0 {
				v = []interface{}{v}
			} else {
				v = map[string]interface{}{"d": v}
			}
		}
		return v
	}
	return cls
}

func kindOf(t string) string {
	switch {
	case strings.HasPrefix(t, "counter"), t == "snapshot.counter", t == "tx":
		return "counter"
	case strings.HasPrefix(t, "map"), t == "snapshot.map":
		return "map"
	case strings.HasPrefix(t, "list"), t == "snapshot.list":
		return "list"
	}
	return "doc"
}

// prepare brings a replica into a state in which every operation type makes sense.
func prepare(in *replica.Inst) {
	switch in.Kind {
	case "counter":
		in.Counter.IncreaseBy(5)
	case "map":
		in.Map.Put("k", "old")
		in.Map.Put("gone", 1)
		in.Map.Remove("gone")
	case "list":
		in.List.InsertMany(0, "a", "b", "c", "d")
		in.List.Delete(1)
	case "doc":
		in.Doc.PutToObject("o", map[string]interface{}{"x": 1})
		in.Doc.PutToObject("a", []interface{}{"a", "b", "c", "d"})
		arr, _ := in.Doc.GetFromObject("a")
		arr.DeleteInArray(1)
	}
}

func batch(v interface{}, pos string) []interface{} {
	switch pos {
	case "first":
		return []interface{}{v, "filler1", "filler2"}
	case "last":
		return []interface{}{"filler1", "filler2", v}
	}
	return []interface{}{v}
}

// emit performs the local call of the grid point on a; returns how many operations it queued.
func emit(a *replica.Inst, pt point) (n int, err error) {
	defer func() {
		if p := recover(); p != nil {
			err = fmt.Errorf("local call panicked: %v", p)
		}
	}()
	before := len(a.DT.CreatePushPullPack().Operations)
	v := value(pt.Cls)
	var oerr error
	switch pt.Type {
	case "counter.inc":
		_, e := a.Counter.IncreaseBy(-7)
		if e != nil {
			oerr = e
		}
	case "map.put":
		if _, e := a.Map.Put("k", v); e != nil {
			oerr = e
		}
	case "map.remove":
		if _, e := a.Map.Remove("k"); e != nil {
			oerr = e
		}
	case "list.insert":
		if _, e := a.List.InsertMany(1, batch(v, pt.Pos)...); e != nil {
			oerr = e
		}
	case "list.update":
		if _, e := a.List.Update(0, batch(v, pt.Pos)...); e != nil {
			oerr = e
		}
	case "list.delete":
		if _, e := a.List.DeleteMany(0, 2); e != nil {
			oerr = e
		}
	case "doc.put":
		if _, e := a.Doc.PutToObject("o", v); e != nil {
			oerr = e
		}
	case "doc.rmv":
		if _, e := a.Doc.DeleteInObject("o"); e != nil {
			oerr = e
		}
	case "doc.ins", "doc.upd", "doc.del":
		arr, e := a.Doc.GetFromObject("a")
		if e != nil || arr == nil {
			return 0, fmt.Errorf("no array")
		}
		switch pt.Type {
		case "doc.ins":
			if _, e := arr.InsertToArray(1, batch(v, pt.Pos)...); e != nil {
				oerr = e
			}
		case "doc.upd":
			if _, e := arr.UpdateManyInArray(0, batch(v, pt.Pos)...); e != nil {
				oerr = e
			}
		default:
			if _, e := arr.DeleteManyInArray(0, 2); e != nil {
				oerr = e
			}
		}
	case "list.insert.txreuse", "doc.ins.txreuse":
		// inside a user transaction, from a slice the caller overwrites afterwards (a bulk load refilling one buffer)
		buf := batch(v, pt.Pos)
		if pt.Type == "list.insert.txreuse" {
			e := a.List.Transaction("bulk", func(l orda.ListInTx) error {
				if _, e := l.InsertMany(1, buf...); e != nil {
					return e
				}
				for k := range buf {
					buf[k] = "overwritten"
				}
				_, e := l.InsertMany(0, buf...)
				return e
			})
			if e != nil {
				oerr = e
			}
		} else {
			arr, e := a.Doc.GetFromObject("a")
			if e != nil || arr == nil {
				return 0, fmt.Errorf("no array")
			}
			e2 := a.Doc.Transaction("bulk", func(d orda.DocumentInTx) error {
				ar, _ := d.GetFromObject("a")
				if _, e := ar.InsertToArray(1, buf...); e != nil {
					return e
				}
				for k := range buf {
					buf[k] = "overwritten"
				}
				_, e := ar.InsertToArray(0, buf...)
				return e
			})
			if e2 != nil {
				oerr = e2
			}
		}
	case "tx":
		e := a.Counter.Transaction("tag with \"quotes\" and ünïcode", func(c orda.CounterInTx) error {
			c.IncreaseBy(1)
			c.IncreaseBy(2)
			return nil
		})
		if e != nil {
			oerr = e
		}
	default: // snapshot.*: put the value into the state first, the snapshot operation is made below
		switch a.Kind {
		case "map":
			a.Map.Put("v", v)
		case "list":
			a.List.Insert(0, v)
		case "doc":
			a.Doc.PutToObject("v", v)
		}
	}
	if oerr != nil {
		return 0, fmt.Errorf("local call refused: %v", oerr)
	}
	return len(a.DT.CreatePushPullPack().Operations) - before, nil
}

func canonView(in *replica.Inst) interface{} {
	c, _ := vals.CanonJSON(in.DT.ToJSON())
	return c
}

func sameID(a, b *model.OperationID) bool {
	return a != nil && b != nil && a.Era == b.Era && a.Lamport == b.Lamport && a.CUID == b.CUID && a.Seq == b.Seq
}

func safeDecode(op *model.Operation) (out iface.Operation, pan string) {
	defer func() {
		if p := recover(); p != nil {
			pan = fmt.Sprint(p)
		}
	}()
	return operations.ModelToOperation(op), ""
}

var replayTmp string

func main() {
	in := flag.String("in", "", "file with CODEC lines")
	rf := flag.String("replayfile", "", "re-run the grid point of a violation record")
	_ = flag.String("kind", "", "unused")
	_ = flag.Int("n", 0, "unused")
	_ = flag.String("prop", "C14", "unused")
	_ = flag.String("journal", "", "unused")
	_ = flag.Int("skip", 0, "unused")
	_ = flag.Bool("v", false, "unused")
	flag.Parse()
	if *rf != "" {
		b, err := os.ReadFile(*rf)
		if err != nil {
			fmt.Println("cannot read", *rf)
			os.Exit(2)
		}
		var v Violation
		json.Unmarshal(b, &v)
		tmp, _ := os.CreateTemp("", "codec-*.txt")
		for _, pt := range v.Steps {
			pb, _ := json.Marshal(pt)
			fmt.Fprintf(tmp, "CODEC %s\n", pb)
		}
		tmp.Close()
		*in = tmp.Name()
		replayTmp = tmp.Name()
	}
	if os.Getenv("VERIF_STDERR") == "" {
		if dn, err := os.OpenFile("/dev/null", os.O_WRONLY, 0); err == nil {
			syscall.Dup2(int(dn.Fd()), 2)
		}
	}
	f, err := os.Open(*in)
	if err != nil {
		fmt.Println(`{"error":"cannot open input"}`)
		os.Exit(3)
	}
	if replayTmp != "" {
		os.Remove(replayTmp) // stays readable through f; nothing is left behind whichever way the process ends
	}
	st, serr := stack.New()
	if serr != nil {
		fmt.Printf(`{"error":"stack: %s"}`+"\n", serr)
		os.Exit(3)
	}
	defer st.Close()
	st.CreateCollection("col")
	sc := bufio.NewScanner(f)
	sc.Buffer(make([]byte, 1<<20), 1<<26)
	var viol []Violation
	checked := map[string]int{}
	evals, distinct := 0, 0
	var samples []interface{}
	report := func(pt point, class, why string, exp, obs interface{}) {
		viol = append(viol, Violation{Property: "C14", Kind: kindOf(pt.Type), Class: class, Why: why + " (" + pt.Type + ", value class " + pt.Cls + ", " + pt.Pos + ", ids " + pt.Idc + ")",
			Steps: []point{pt}, Expected: exp, Observed: obs, Hash: "codec-" + pt.Type + "-" + pt.Cls + "-" + pt.Pos + "-" + pt.Idc, Tool: "codeccheck"})
	}
	nth := 0
	for sc.Scan() {
		line := sc.Text()
		if strings.HasPrefix(line, "\"CODEC ") {
			var unq string
			json.Unmarshal([]byte(line), &unq)
			line = unq
		}
		if !strings.HasPrefix(line, "CODEC ") {
			continue
		}
		var pt point
		if err := json.Unmarshal([]byte(line[6:]), &pt); err != nil {
			continue
		}
		nth++
		evals++
		kind := kindOf(pt.Type)
		a := replica.NewInst(kind, "k")
		prepare(a)
		if pt.Idc == "era" || pt.Idc == "big" {
			// the identifier the next operations carry: a later era, or counters beyond 32 bits
			if x, ok := a.DT.(interface {
				GetOpID() *model.OperationID
				SetOpID(*model.OperationID)
			}); ok {
				id := x.GetOpID().Clone()
				if pt.Idc == "era" {
					id.Era = 3
				} else {
					id.Lamport += 1 << 40
					id.Seq += 1 << 33
				}
				x.SetOpID(id)
			}
		}
		pre := a.DT.CreatePushPullPack().Operations
		npre := len(pre)
		n, err := emit(a, pt)
		if err != nil {
			report(pt, "error", err.Error(), nil, nil)
			continue
		}
		var emitted []*model.Operation
		if strings.HasPrefix(pt.Type, "snapshot") {
			sop, oerr := a.DT.CreateSnapshotOperation()
			if oerr != nil {
				report(pt, "error", "CreateSnapshotOperation failed: "+oerr.Error(), nil, nil)
				continue
			}
			sid := &model.OperationID{Lamport: 99, CUID: a.DT.GetCUID(), Seq: 99}
			if pt.Idc == "era" {
				sid.Era = 3
			} else if pt.Idc == "big" {
				sid.Lamport, sid.Seq = 1<<40+99, 1<<33+99
			}
			sop.SetID(sid)
			emitted = []*model.Operation{sop.ToModelOperation()}
		} else {
			all := a.DT.CreatePushPullPack().Operations
			emitted = all[len(all)-n:]
		}
		if len(emitted) == 0 {
			report(pt, "error", "the call emitted no operation", nil, nil)
			continue
		}
		distinct++
		want := canonView(a)
		if len(samples) < 3 && (pt.Cls == "nestedmap" || pt.Cls == "separators") {
			samples = append(samples, map[string]interface{}{"point": pt, "operation": emitted[len(emitted)-1].String(), "view": want})
		}
		// the paths an operation travels
		paths := map[string]func(op *model.Operation) (*model.Operation, error){
			"message": func(op *model.Operation) (*model.Operation, error) {
				dec, pan := safeDecode(op)
				if pan != "" {
					return nil, fmt.Errorf("decoding panicked: %s", pan)
				}
				return dec.ToModelOperation(), nil
			},
			"protobuf": func(op *model.Operation) (*model.Operation, error) {
				b, err := proto.Marshal(op)
				if err != nil {
					return nil, err
				}
				out := &model.Operation{}
				if err := proto.Unmarshal(b, out); err != nil {
					return nil, err
				}
				return out, nil
			},
			"bson document": func(op *model.Operation) (*model.Operation, error) {
				doc := schema.NewOperationDoc(op, "duid", 7, 1)
				b, err := bson.Marshal(doc)
				if err != nil {
					return nil, err
				}
				var back schema.OperationDoc
				if err := bson.Unmarshal(b, &back); err != nil {
					return nil, err
				}
				return back.GetOperation(), nil
			},
			"echo service": func(op *model.Operation) (*model.Operation, error) {
				res, err := st.Svc.TestEncodingOperation(gocontext.Background(), &model.EncodingMessage{Type: a.DT.GetType(), Op: proto.Clone(op).(*model.Operation)})
				if err != nil {
					return nil, err
				}
				return res.Op, nil
			},
		}
		// through the MongoDB repository: all emitted operations of the point in one insert
		duid := fmt.Sprintf("d%06d", nth)
		var docs []interface{}
		for k, op := range emitted {
			docs = append(docs, schema.NewOperationDoc(op, duid, uint64(k+1), 1))
		}
		var stored []*model.Operation
		if oerr := st.Mgrs.Mongo.InsertOperations(st.Ctx, docs); oerr != nil {
			report(pt, "error", "storing the operation failed: "+oerr.Error(), nil, nil)
			continue
		}
		opList, _, oerr := st.Mgrs.Mongo.GetOperations(st.Ctx, duid, 1, 1<<40)
		if oerr != nil || len(opList) != len(emitted) {
			report(pt, "error", fmt.Sprintf("reading the stored operations back failed (%v, %d of %d)", oerr, len(opList), len(emitted)), nil, nil)
			continue
		}
		stored = opList
		failed := false
		for name, path := range paths {
			var through []*model.Operation
			for _, op := range emitted {
				out, err := func() (o *model.Operation, e error) {
					defer func() {
						if p := recover(); p != nil {
							e = fmt.Errorf("panic: %v", p)
						}
					}()
					return path(op)
				}()
				if err != nil {
					report(pt, "error", "path '"+name+"' failed: "+err.Error(), nil, nil)
					failed = true
					break
				}
				through = append(through, out)
			}
			if failed {
				break
			}
			if !check(pt, name, kind, pre[:npre], emitted, through, want, report) {
				failed = true
				break
			}
			checked["path "+name]++
		}
		if failed {
			continue
		}
		if check(pt, "mongodb repository", kind, pre[:npre], emitted, stored, want, report) {
			checked["path mongodb repository"]++
		}
	}
	sum := map[string]interface{}{"behaviours": evals, "distinct": distinct, "checked": checked, "nviol": len(viol), "violations": viol, "samples": samples}
	if len(viol) > 8 {
		sum["violations"] = viol[:8]
	}
	b, _ := json.Marshal(sum)
	fmt.Println(string(b))
	if len(viol) > 0 {
		os.Exit(1)
	}
}

// check: the operations that came out of a path have the identifiers and types of those that went in, and a
// second replica that applies them ends up showing what the emitting replica shows.
func check(pt point, name, kind string, pre, emitted, through []*model.Operation, want interface{},
	report func(pt point, class, why string, exp, obs interface{})) bool {
	for k := range emitted {
		if !sameID(emitted[k].ID, through[k].ID) {
			report(pt, "mismatch", "path '"+name+"' changed the operation identifier", emitted[k].ID.ToString(), through[k].ID.ToString())
			return false
		}
		if emitted[k].OpType != through[k].OpType {
			report(pt, "mismatch", "path '"+name+"' changed the operation type", emitted[k].OpType.String(), through[k].OpType.String())
			return false
		}
	}
	b := replica.NewInst(kind, "k")
	var pan string
	func() {
		defer func() {
			if p := recover(); p != nil {
				pan = fmt.Sprint(p)
			}
		}()
		// the second replica gets the pre-state the normal way, then the operations under test through the path
		ops := append([]*model.Operation{}, pre[1:]...)
		if _, err := b.DT.ReceiveRemoteModelOperations(ops, false); err != nil {
			pan = "pre-state: " + err.Error()
			return
		}
		if _, err := b.DT.ReceiveRemoteModelOperations(through, false); err != nil {
			pan = "applying the decoded operation failed: " + err.Error()
		}
	}()
	if pan != "" {
		report(pt, "error", "path '"+name+"': "+pan, nil, nil)
		return false
	}
	got := canonView(b)
	if strings.HasPrefix(pt.Type, "snapshot") {
		// a snapshot operation replaces the state
		if !reflect.DeepEqual(got, want) {
			report(pt, "mismatch", "path '"+name+"': the snapshot operation does not reproduce the state", want, got)
			return false
		}
		return true
	}
	if !reflect.DeepEqual(got, want) {
		report(pt, "mismatch", "path '"+name+"': the decoded operation has another effect than the original", want, got)
		return false
	}
	return true
}
