// rtreplay: S->I replay of OrdaRealtime behaviours (C18, realtime half) on real REALTIME clients, the real
// server behind real gRPC and a notification broker that holds every delivery until the behaviour lets it
// through. The replay controls exactly the points the specification's actions stand for:
//
//	local    the user's call on the real counter (the library starts its own push)
//	serve    a request parked at the server's port is handed to the real service
//	respond  the parked answer is let through to the client
//	notify   one held notification is forwarded to one subscriber
//
// After every step the request the specification predicts (or none) must show up at the port; at the end
// of a behaviour the whole observable state is compared (values, checkpoints, stored log, recorded
// checkpoints, parked requests / answers / notifications), then everything is let loose and the clients
// must converge by themselves (no Sync call is ever made).
package main

import (
	"bufio"
	"crypto/sha1"
	"encoding/hex"
	"encoding/json"
	"flag"
	"fmt"
	"os"
	"sort"
	"strings"
	"syscall"
	"time"

	"github.com/orda-io/orda/client/pkg/model"

	"verifharness/rt"
	"verifharness/stack"
)

type ReqOut struct {
	ID   int    `json:"id"`
	C    int    `json:"c"`
	K    int    `json:"k"`
	Cps  int    `json:"cps"`
	Cpc  int    `json:"cpc"`
	Nops int    `json:"nops"`
	Via  string `json:"via"`
}

type Act struct {
	Name   string   `json:"name"`
	C      int      `json:"c,omitempty"`
	K      int      `json:"k,omitempty"`
	N      int      `json:"n,omitempty"`
	I      int      `json:"i,omitempty"`
	ID     int      `json:"id,omitempty"`
	By     int      `json:"by,omitempty"`
	End    int      `json:"end,omitempty"`
	Pushed int      `json:"pushed,omitempty"`
	Pulled int      `json:"pulled,omitempty"`
	Cps    int      `json:"cps,omitempty"`
	Cpc    int      `json:"cpc,omitempty"`
	Req    []ReqOut `json:"req,omitempty"`
	Cands  []int    `json:"cands,omitempty"`
	After  *After   `json:"after,omitempty"`
}

// After is what the client shows once a response is applied.
type After struct {
	S       int     `json:"s"`
	C       int     `json:"c"`
	Applied [][]int `json:"applied"`
}

type CP struct {
	S int `json:"s"`
	C int `json:"c"`
}

type Note struct {
	K   int `json:"k"`
	By  int `json:"by"`
	End int `json:"end"`
}

type Obs struct {
	Cp      [][]CP      `json:"cp"`
	Made    [][]int     `json:"made"`
	Applied [][][][]int `json:"applied"`
	Log     [][][]int   `json:"log"`
	Scp     [][]CP      `json:"scp"`
	Reqs    []ReqOut    `json:"reqs"`
	Resps   []ReqOut    `json:"resps"`
	Held    [][]Note    `json:"held"`
	Settled bool        `json:"settled"`
	Idle    bool        `json:"idle"`
}

type Edge struct {
	Hist []Act `json:"hist"`
	Obs  Obs   `json:"obs"`
}

type Step struct {
	T      int             `json:"t"`
	L      int             `json:"l"`
	Act    Act             `json:"act"`
	Pact   json.RawMessage `json:"pact"`
	RawAct json.RawMessage `json:"-"`
	Obs    Obs             `json:"obs"`
}

type Violation struct {
	Property string      `json:"property"`
	Kind     string      `json:"kind"`
	N        int         `json:"n"`
	K        int         `json:"k"`
	Class    string      `json:"class"`
	Why      string      `json:"why"`
	Step     int         `json:"failed_at"`
	Expected interface{} `json:"expected,omitempty"`
	Observed interface{} `json:"observed,omitempty"`
	Steps    []Act       `json:"steps"`
	Obs      *Obs        `json:"obs_at_failure,omitempty"`
	Hash     string      `json:"hash"`
	Tool     string      `json:"tool"`
}

type Summary struct {
	Property   string         `json:"property"`
	Kind       string         `json:"kind"`
	Behaviours int            `json:"behaviours"`
	Steps      int            `json:"steps"`
	Completed  int            `json:"completed"`
	Desynced   int            `json:"desynced"`
	DesyncWhy  map[string]int `json:"desync_why"`
	Checked    map[string]int `json:"checked"`
	NViol      int            `json:"nviol"`
	Violations []Violation    `json:"violations"`
	Samples    []interface{}  `json:"samples"`
	Distinct   int            `json:"distinct"`
}

type engine struct {
	prop        string
	n, k        int
	sum         Summary
	seen        map[string]bool
	dist        map[string]bool
	maxV        int
	journal     string
	skip        int
	nth         int
	srv         *rt.Server
	wait        time.Duration
	dirty       bool
	slowAll     bool // replay of a recorded violation: every setup meets the slow broker
	setupFailed int
}

var long = stack.Patience(6 * time.Second)

type world struct {
	e      *engine
	srv    *rt.Server
	cls    []*rt.Client   // index c-1
	dts    [][]*rt.DT     // [c-1][k-1]
	keys   []string       // [k-1]
	duid   []string       // [k-1]
	cidx   map[string]int // cuid -> c
	baseS  [][]uint64     // client checkpoint baseline [c-1][k-1]
	baseC  [][]uint64
	sbaseS [][]uint64 // server-recorded checkpoint baseline [k-1][c-1]
	sbaseC [][]uint64
	logLen []int            // baseline log length per key
	nops   []int            // operations made per key so far (index of the next delta digit)
	digit  map[[3]int]int   // op (c,k,n) -> digit position
	reqs   map[int]*rt.PReq // spec request id -> real request
	seenRq int              // number of proxy requests already attributed
	early  string           // set by the setup: a first sync was reported complete before the client listened to its topic
}

type run struct {
	e      *engine
	w      *world
	acts   []Act
	curObs *Obs
}

func (r *run) violate(step int, class, why string, exp, obs interface{}) {
	e := r.e
	prefix := r.acts[:step+1]
	b, _ := json.Marshal(prefix)
	h := sha1.Sum(append(b, []byte(class+why)...))
	hash := hex.EncodeToString(h[:8])
	if e.seen[hash] {
		return
	}
	e.seen[hash] = true
	e.sum.NViol++
	if len(e.sum.Violations) < e.maxV {
		e.sum.Violations = append(e.sum.Violations, Violation{Property: e.prop, Kind: "counter", N: e.n, K: e.k, Class: class, Why: why, Step: step,
			Expected: exp, Observed: obs, Steps: append([]Act{}, prefix...), Obs: r.curObs, Hash: hash, Tool: "rtreplay"})
	}
}

func (e *engine) count(k string) { e.sum.Checked[k]++ }

func pow8(j int) int32 {
	v := int32(1)
	for i := 0; i < j; i++ {
		v *= 8
	}
	return v
}

func fatal(format string, a ...interface{}) {
	fmt.Printf(`{"error":%q}`+"\n", fmt.Sprintf(format, a...))
	os.Exit(3)
}

// setup: client 1 creates every key, the others subscribe; everybody has completed its first sync (the
// library syncs by itself in realtime mode) and listens on every topic. Nothing is gated yet.
func (e *engine) setup() (w *world, err error) {
	w = &world{e: e, srv: e.srv, cidx: map[string]int{}, digit: map[[3]int]int{}, reqs: map[int]*rt.PReq{}}
	e.srv.Proxy.SetGated(false)
	e.srv.St.BR.SetGated(false)
	for k := 1; k <= e.k; k++ {
		w.keys = append(w.keys, fmt.Sprintf("b%dk%d", e.nth, k))
	}
	for c := 1; c <= e.n; c++ {
		cl, cerr := e.srv.NewClient("col", fmt.Sprintf("c%d", c), model.SyncType_REALTIME)
		if cerr != nil {
			return w, fmt.Errorf("client: %v", cerr)
		}
		w.cls = append(w.cls, cl)
		var row []*rt.DT
		for k := 1; k <= e.k; k++ {
			mode := "dueSub"
			if c == 1 {
				mode = "dueCreate"
			}
			// the last client meets a broker that is slow to register subscriptions: when its first sync is reported
			// complete (state-change handler), it must already be listening to the topic - a push made right then is
			// announced only to those who are
			slow := c == e.n && k == e.k && (e.nth%3 == 0 || e.slowAll)
			if slow {
				e.srv.St.BR.SetSubscribeDelay(20 * time.Millisecond)
			}
			d := cl.OpenCounter(w.keys[k-1], mode)
			okSub := rt.WaitFor(long, d.Subscribed)
			listening := e.srv.St.BR.Subscriptions(cl.CUID)
			if slow {
				e.srv.St.BR.SetSubscribeDelay(0)
			}
			if !okSub {
				_, errs, _ := d.Ev.Get()
				return w, fmt.Errorf("setup: client %d key %d not subscribed: %v", c, k, errs)
			}
			if slow {
				e.count("first syncs: listening when reported complete")
				if listening < k {
					w.early = fmt.Sprintf("client %d was told its first sync of key %d is complete (SUBSCRIBED) before it listens to the key's notifications: %d of %d topics registered at the broker", c, k, listening, k)
				}
			}
			row = append(row, d)
			// the goroutine that made the first sync still holds the client's semaphore for a moment
			rt.WaitFor(long, func() bool { return e.srv.St.BR.Subscriptions(cl.CUID) == k })
			if e.k > 1 {
				time.Sleep(5 * time.Millisecond)
			}
		}
		w.dts = append(w.dts, row)
		w.cidx[cl.CUID] = c
		if !rt.WaitFor(long, func() bool { return e.srv.St.BR.Subscriptions(cl.CUID) == e.k }) {
			return w, fmt.Errorf("setup: client %d has %d topic subscriptions", c, e.srv.St.BR.Subscriptions(cl.CUID))
		}
	}
	// the creation pushes were announced (one each); all requests of the setup have returned
	mine := func() int {
		n := 0
		for _, p := range e.srv.St.BR.Published() {
			for _, key := range w.keys {
				if p.Topic == "col/"+key {
					n++
				}
			}
		}
		return n
	}
	if !rt.WaitFor(long, func() bool { return mine() == e.k }) {
		return w, fmt.Errorf("setup: %d notifications for %d creation pushes", mine(), e.k)
	}
	quiet := func() bool {
		for _, r := range e.srv.Proxy.Requests() {
			if !r.Done() {
				return false
			}
		}
		return true
	}
	if !rt.WaitFor(long, quiet) {
		return w, fmt.Errorf("setup: requests still in flight")
	}
	time.Sleep(2 * time.Millisecond)
	if !rt.WaitFor(long, quiet) {
		return w, fmt.Errorf("setup: requests still in flight")
	}
	store := e.srv.St.ReadStore()
	w.duid = make([]string, e.k)
	w.logLen = make([]int, e.k)
	w.nops = make([]int, e.k)
	for k := 0; k < e.k; k++ {
		for _, row := range store.Datatypes {
			if row.Key == w.keys[k] {
				w.duid[k] = row.DUID
				w.logLen[k] = int(row.End)
				var ss, sc []uint64
				for c := 0; c < e.n; c++ {
					cp := row.CP[w.cls[c].CUID]
					ss, sc = append(ss, cp[0]), append(sc, cp[1])
				}
				w.sbaseS, w.sbaseC = append(w.sbaseS, ss), append(w.sbaseC, sc)
			}
		}
		if w.duid[k] == "" {
			return w, fmt.Errorf("setup: no datatype for key %s", w.keys[k])
		}
	}
	for c := 0; c < e.n; c++ {
		var bs, bc []uint64
		for k := 0; k < e.k; k++ {
			s, cs, pend := w.dts[c][k].CP()
			if pend != 0 || int(s) != w.logLen[k] {
				return w, fmt.Errorf("setup: client %d key %d not settled: sseq=%d pending=%d end=%d", c+1, k+1, s, pend, w.logLen[k])
			}
			bs, bc = append(bs, s), append(bc, cs)
		}
		w.baseS, w.baseC = append(w.baseS, bs), append(w.baseC, bc)
	}
	e.srv.Proxy.Forget()
	e.srv.Proxy.SetGated(true)
	e.srv.St.BR.SetGated(true)
	return w, nil
}

func (w *world) teardown() {
	w.srv.Proxy.SetGated(false)
	w.srv.St.BR.SetGated(false)
	w.letLoose()
	for _, cl := range w.cls {
		done := make(chan struct{})
		go func(c *rt.Client) {
			defer func() { recover(); close(done) }()
			_ = c.C.Close()
		}(cl)
		select {
		case <-done:
		case <-time.After(stack.Patience(2 * time.Second)):
		}
	}
}

// letLoose releases everything that is parked.
func (w *world) letLoose() {
	for _, r := range w.srv.Proxy.Requests() {
		if !r.Done() {
			go func(r *rt.PReq) { r.Serve(long); r.Respond() }(r)
		}
	}
	for _, cl := range w.cls {
		for w.srv.St.BR.Release(cl.CUID, 0) {
		}
	}
}

// awaitRequest waits for the next request at the port and checks it against the specification's.
func (r *run) awaitRequest(i int, exp ReqOut) bool {
	w := r.w
	var pr *rt.PReq
	if !rt.WaitFor(long, func() bool {
		all := w.srv.Proxy.Requests()
		if len(all) > w.seenRq {
			pr = all[w.seenRq]
			return true
		}
		return false
	}) {
		r.violate(i, "hang", fmt.Sprintf("after %s the client should send a request for key %d by itself (%s) - none reached the server", r.acts[i].Name, exp.K, exp.Via), exp, nil)
		return false
	}
	w.seenRq++
	cuid, key, cps, cpc, nops, npacks := pr.Info()
	c := w.cidx[cuid]
	got := ReqOut{ID: exp.ID, C: c, Via: exp.Via, Nops: nops}
	for k := range w.keys {
		if w.keys[k] == key {
			got.K = k + 1
		}
	}
	if got.K > 0 && c > 0 {
		got.Cps, got.Cpc = int(cps)-int(w.baseS[c-1][got.K-1]), int(cpc)-int(w.baseC[c-1][got.K-1])
	}
	w.reqs[exp.ID] = pr
	r.e.count("requests compared")
	if npacks != 1 || got != exp {
		// with several datatypes waiting the goroutines race for the semaphore: any of the candidates is legal
		if a := r.acts[i]; npacks == 1 && got.C == exp.C && got.K != exp.K && len(a.Cands) > 1 {
			for _, cand := range a.Cands {
				if cand == got.K {
					r.e.sum.Desynced++
					r.e.sum.DesyncWhy["another waiting datatype won the semaphore"]++
					return false
				}
			}
		}
		r.violate(i, "mismatch", fmt.Sprintf("after %s the request that reached the server differs from the specification's", r.acts[i].Name), exp, got)
		return false
	}
	return true
}

func (r *run) step(i int) bool {
	w, a := r.w, &r.acts[i]
	switch a.Name {
	case "local":
		d := w.dts[a.C-1][a.K-1]
		j := w.nops[a.K-1]
		if j > 9 {
			fatal("more than 10 operations on one key")
		}
		w.nops[a.K-1]++
		w.digit[[3]int{a.C, a.K, a.N}] = j
		if _, err := d.Counter.IncreaseBy(pow8(j)); err != nil {
			r.violate(i, "mismatch", "local operation failed: "+err.Error(), nil, nil)
			return false
		}
	case "serve":
		pr := w.reqs[a.ID]
		if pr == nil {
			fatal("serve of unknown request %d", a.ID)
		}
		held0 := w.srv.St.BR.HeldCount()
		if !pr.Serve(long) {
			r.violate(i, "hang", "the server did not answer a request within the deadline", nil, nil)
			return false
		}
		cps, cpc, nops, isErr := pr.RespInfo()
		got := map[string]interface{}{"cps": int(cps) - int(w.baseS[a.C-1][a.K-1]), "cpc": int(cpc) - int(w.baseC[a.C-1][a.K-1]), "nops": nops, "error": isErr || pr.Err != nil}
		exp := map[string]interface{}{"cps": a.Cps, "cpc": a.Cpc, "nops": a.Pulled, "error": false}
		r.e.count("responses compared")
		if fmt.Sprint(got) != fmt.Sprint(exp) {
			r.violate(i, "mismatch", "the server's answer differs from the specification's", exp, got)
			return false
		}
		if a.Pushed > 0 {
			// one notification, held once per subscriber
			r.e.count("notification checks")
			if !rt.WaitFor(long, func() bool { return w.srv.St.BR.HeldCount() >= held0+r.e.n }) {
				r.violate(i, "mismatch", "a push that stored operations was not announced to every subscriber", r.e.n, w.srv.St.BR.HeldCount()-held0)
				return false
			}
		}
	case "respond":
		pr := w.reqs[a.ID]
		if pr == nil {
			fatal("respond of unknown request %d", a.ID)
		}
		pr.Respond()
		if !rt.WaitFor(long, pr.Done) {
			r.violate(i, "hang", "the call did not return", nil, nil)
			return false
		}
		if a.After != nil {
			// the call has returned; the library applies the answer in the caller's goroutine: wait for it
			d := w.dts[a.C-1][a.K-1]
			want := int64(0)
			for _, o := range a.After.Applied {
				want += int64(pow8(w.digit[[3]int{o[0], o[1], o[2]}]))
			}
			var got [3]int64
			r.e.count("applied responses compared")
			if !rt.WaitFor(long, func() bool {
				s, cs, _ := d.CP()
				got = [3]int64{int64(s) - int64(w.baseS[a.C-1][a.K-1]), int64(cs) - int64(w.baseC[a.C-1][a.K-1]), int64(d.Counter.Get())}
				return got == [3]int64{int64(a.After.S), int64(a.After.C), want}
			}) {
				r.violate(i, "mismatch", "after the answer was let through the client does not show the specified checkpoint and value (operations applied exactly once)",
					[3]int64{int64(a.After.S), int64(a.After.C), want}, got)
				return false
			}
		}
	case "notify":
		cl := w.cls[a.C-1]
		hs := w.srv.St.BR.HeldFor(cl.CUID)
		if a.I-1 >= len(hs) {
			r.violate(i, "mismatch", fmt.Sprintf("the specification holds a notification #%d for client %d, the broker holds %d", a.I, a.C, len(hs)), nil, nil)
			return false
		}
		n, ok := w.note(hs[a.I-1].Topic, hs[a.I-1].Payload)
		r.e.count("notification checks")
		if !ok || n != (Note{K: a.K, By: a.By, End: a.End}) {
			r.violate(i, "mismatch", "the held notification differs from the specification's", Note{a.K, a.By, a.End}, fmt.Sprintf("%v %s %s", n, hs[a.I-1].Topic, hs[a.I-1].Payload))
			return false
		}
		w.srv.St.BR.Release(cl.CUID, a.I-1)
	default:
		fatal("unknown action %s", a.Name)
	}
	if len(a.Req) > 0 {
		return r.awaitRequest(i, a.Req[0])
	}
	return true
}

// note decodes a notification into the specification's terms.
func (w *world) note(topic string, payload []byte) (Note, bool) {
	var n model.Notification
	if err := json.Unmarshal(payload, &n); err != nil {
		return Note{}, false
	}
	for k := range w.keys {
		if topic == "col/"+w.keys[k] && n.DUID == w.duid[k] {
			return Note{K: k + 1, By: w.cidx[n.CUID], End: int(n.Sseq) - w.logLen[k]}, true
		}
	}
	return Note{}, false
}

// observe reads the whole observable state in the specification's terms.
func (w *world) observe(withStore bool) map[string]interface{} {
	e := w.e
	out := map[string]interface{}{}
	var vals [][]int64
	var cps [][]CP
	var pend [][]int
	for c := 0; c < e.n; c++ {
		var vr []int64
		var cr []CP
		var pr []int
		for k := 0; k < e.k; k++ {
			d := w.dts[c][k]
			s, cs, p := d.CP()
			vr = append(vr, int64(d.Counter.Get()))
			cr = append(cr, CP{int(s) - int(w.baseS[c][k]), int(cs) - int(w.baseC[c][k])})
			pr = append(pr, p)
		}
		vals, cps, pend = append(vals, vr), append(cps, cr), append(pend, pr)
	}
	out["values"], out["cp"], out["pending"] = vals, cps, pend
	if !withStore {
		return out
	}
	store := w.srv.St.ReadStore()
	var logs [][][]int
	var scps [][]CP
	var ends []int
	for k := 0; k < e.k; k++ {
		rows := append([]stack.OpRow{}, store.Ops[w.duid[k]]...)
		sort.Slice(rows, func(i, j int) bool { return rows[i].Sseq < rows[j].Sseq })
		lg := [][]int{}
		for i, row := range rows {
			if int(row.Sseq) != i+1 {
				lg = append(lg, []int{-1, int(row.Sseq), i + 1}) // a gap or repeat in the stored sequence numbers
				continue
			}
			if i < w.logLen[k] {
				continue
			}
			c := w.cidx[row.CUID]
			n := -1
			if c > 0 {
				n = int(row.Seq) - int(w.baseC[c-1][k])
			}
			lg = append(lg, []int{c, k + 1, n})
		}
		logs = append(logs, lg)
		var sr []CP
		for _, row := range store.Datatypes {
			if row.DUID == w.duid[k] {
				ends = append(ends, int(row.End)-w.logLen[k])
				for c := 0; c < e.n; c++ {
					cp := row.CP[w.cls[c].CUID]
					sr = append(sr, CP{int(cp[0]) - int(w.sbaseS[k][c]), int(cp[1]) - int(w.sbaseC[k][c])})
				}
			}
		}
		scps = append(scps, sr)
	}
	out["log"], out["scp"], out["end"] = logs, scps, ends
	w.parked(out)
	return out
}

func (w *world) parked(out map[string]interface{}) {
	e := w.e
	var parked, answered []ReqOut
	for id, pr := range w.reqs {
		if pr.Done() {
			continue
		}
		cuid, key, cps, cpc, nops, _ := pr.Info()
		c := w.cidx[cuid]
		ro := ReqOut{ID: id, C: c}
		for k := range w.keys {
			if w.keys[k] == key {
				ro.K = k + 1
			}
		}
		if pr.Served() {
			s, cs, n, _ := pr.RespInfo()
			ro.Cps, ro.Cpc, ro.Nops = int(s)-int(w.baseS[c-1][ro.K-1]), int(cs)-int(w.baseC[c-1][ro.K-1]), n
			answered = append(answered, ro)
		} else {
			ro.Cps, ro.Cpc, ro.Nops = int(cps)-int(w.baseS[c-1][ro.K-1]), int(cpc)-int(w.baseC[c-1][ro.K-1]), nops
			parked = append(parked, ro)
		}
	}
	sort.Slice(parked, func(i, j int) bool { return parked[i].ID < parked[j].ID })
	sort.Slice(answered, func(i, j int) bool { return answered[i].ID < answered[j].ID })
	out["reqs"], out["resps"] = parked, answered
	out["unattributed_requests"] = len(w.srv.Proxy.Requests()) - w.seenRq
	var held [][]Note
	for c := 0; c < e.n; c++ {
		hr := []Note{}
		for _, h := range w.srv.St.BR.HeldFor(w.cls[c].CUID) {
			n, _ := w.note(h.Topic, h.Payload)
			hr = append(hr, n)
		}
		held = append(held, hr)
	}
	out["held"] = held
}

// expected renders the specification's observation in the same shape.
func (w *world) expected(ob *Obs) map[string]interface{} {
	e := w.e
	out := map[string]interface{}{}
	var vals [][]int64
	var pend [][]int
	for c := 0; c < e.n; c++ {
		var vr []int64
		var pr []int
		for k := 0; k < e.k; k++ {
			v := int64(0)
			for _, o := range ob.Applied[c][k] {
				v += int64(pow8(w.digit[[3]int{o[0], o[1], o[2]}]))
			}
			vr = append(vr, v)
			pr = append(pr, ob.Made[c][k]-ob.Cp[c][k].C)
		}
		vals, pend = append(vals, vr), append(pend, pr)
	}
	out["values"], out["cp"], out["pending"] = vals, ob.Cp, pend
	logs := [][][]int{}
	var ends []int
	for k := 0; k < e.k; k++ {
		lg := ob.Log[k]
		if lg == nil {
			lg = [][]int{}
		}
		logs = append(logs, lg)
		ends = append(ends, len(ob.Log[k]))
	}
	out["log"], out["scp"], out["end"] = logs, ob.Scp, ends
	strip := func(in []ReqOut) []ReqOut {
		var o []ReqOut
		for _, r := range in {
			r.Via = ""
			o = append(o, r)
		}
		return o
	}
	out["reqs"], out["resps"] = strip(ob.Reqs), strip(ob.Resps)
	out["unattributed_requests"] = 0
	var held [][]Note
	for c := 0; c < e.n; c++ {
		hr := []Note{}
		hr = append(hr, ob.Held[c]...)
		held = append(held, hr)
	}
	out["held"] = held
	return out
}

func js(v interface{}) string { b, _ := json.Marshal(v); return string(b) }

// compare polls until the real state equals the specification's (the library's goroutines may still be
// finishing the last step) or the deadline passes.
func (r *run) compare(i int, ob *Obs) bool {
	exp := r.w.expected(ob)
	var got map[string]interface{}
	// the clients first (cheap), then everything including the store
	ok := rt.WaitFor(long, func() bool {
		got = r.w.observe(false)
		for k := range got {
			if js(got[k]) != js(exp[k]) {
				return false
			}
		}
		return true
	})
	if ok {
		ok = rt.WaitFor(long, func() bool {
			got = r.w.observe(true)
			return js(got) == js(exp)
		})
	} else {
		got = r.w.observe(true)
	}
	r.e.count("state comparisons")
	if ok {
		// nothing more may show up: give stray goroutines a moment
		time.Sleep(r.e.wait)
		got = r.w.observe(true)
		ok = js(got) == js(exp)
	}
	if !ok {
		var diff []string
		for k := range exp {
			if js(exp[k]) != js(got[k]) {
				diff = append(diff, k)
			}
		}
		sort.Strings(diff)
		r.violate(i, "mismatch", "the real state differs from the specification's in: "+strings.Join(diff, ", "), exp, got)
		return false
	}
	return true
}

// converge lets everything loose (no Sync call is made) and waits for all clients to hold everything.
func (r *run) converge(i int) bool {
	w, e := r.w, r.e
	w.srv.Proxy.SetGated(false)
	w.srv.St.BR.SetGated(false)
	w.letLoose()
	var state map[string]interface{}
	ok := rt.WaitFor(long, func() bool {
		w.letLoose()
		for k := 0; k < e.k; k++ {
			end, full := uint64(w.logLen[k]+w.nops[k]), int64(0)
			for j := 0; j < w.nops[k]; j++ {
				full += int64(pow8(j))
			}
			for c := 0; c < e.n; c++ {
				s, _, p := w.dts[c][k].CP()
				if s != end || p != 0 || int64(w.dts[c][k].Counter.Get()) != full {
					return false
				}
			}
		}
		return true
	})
	if ok {
		// the stored log holds exactly the operations that were made
		store := w.srv.St.ReadStore()
		for k := 0; k < e.k; k++ {
			for _, row := range store.Datatypes {
				if row.DUID == w.duid[k] && int(row.End) != w.logLen[k]+w.nops[k] {
					ok = false
				}
			}
			if len(store.Ops[w.duid[k]]) != w.logLen[k]+w.nops[k] {
				ok = false
			}
		}
	}
	e.count("convergence checks")
	if !ok {
		state = w.observe(true)
		r.violate(i, "hang", "realtime clients did not converge by themselves after everything in flight was delivered", "every client holds every operation of every datatype, nothing left to push", state)
		return false
	}
	return true
}

func (e *engine) behaviour(acts []Act, obsAt func(i int) *Obs) bool {
	e.nth++
	if e.nth <= e.skip {
		return true
	}
	if e.journal != "" {
		last := len(acts) - 1
		rec := Violation{Property: e.prop, Kind: "counter", N: e.n, K: e.k, Class: "crash", Steps: acts, Step: last, Obs: obsAt(last), Tool: "rtreplay"}
		b, _ := json.Marshal(map[string]interface{}{"nth": e.nth, "record": rec, "partial": e.sum})
		os.WriteFile(e.journal+".tmp", b, 0644)
		os.Rename(e.journal+".tmp", e.journal)
	}
	// A client that is closed with unpushed operations keeps retrying its push for ever (the library re-delivers
	// as long as something is left to push), and it spins when its server is gone. So a server is only closed
	// after a behaviour whose clients converged; after a failed one it is left running and a new one is started.
	if e.dirty {
		e.newServer()
		e.dirty = false
	} else if e.sum.Behaviours > 0 && e.sum.Behaviours%40 == 0 {
		e.srv.Close()
		e.newServer()
	}
	w, serr := e.setup()
	e.dirty = true
	defer w.teardown()
	if serr != nil {
		// the world could not be brought to its starting state: nothing is decided by this behaviour
		e.sum.Behaviours++
		e.sum.Desynced++
		why := serr.Error()
		if len(why) > 40 {
			why = why[:40]
		}
		e.sum.DesyncWhy[why]++
		e.setupFailed++
		if e.setupFailed > 3+e.sum.Behaviours/20 {
			fatal("too many failed setups: %v", serr)
		}
		return false
	}
	r := &run{e: e, w: w, acts: acts}
	e.sum.Behaviours++
	if w.early != "" {
		r.violate(0, "mismatch", w.early, nil, nil)
		return false
	}
	last := -1
	des0 := e.sum.Desynced
	for i := range acts {
		if acts[i].Name == "init" {
			continue
		}
		e.sum.Steps++
		r.curObs = obsAt(i)
		if !r.step(i) {
			return false
		}
		if r.curObs != nil && !r.compare(i, r.curObs) {
			return false
		}
		last = i
	}
	if e.sum.Desynced != des0 {
		return false
	}
	if last >= 0 && !r.converge(last) {
		return false
	}
	e.sum.Completed++
	e.dirty = false
	return true
}

func sameJSON(a, b json.RawMessage) bool {
	var x, y interface{}
	if json.Unmarshal(a, &x) != nil || json.Unmarshal(b, &y) != nil {
		return false
	}
	return js(x) == js(y)
}

func chooseWalk(lines []Step) []Step {
	byLevel := map[int][]Step{}
	maxL, minL := 0, 1<<30
	for _, s := range lines {
		byLevel[s.L] = append(byLevel[s.L], s)
		if s.L > maxL {
			maxL = s.L
		}
		if s.L < minL {
			minL = s.L
		}
	}
	var out []Step
	for l := minL; l <= maxL; l++ {
		cands := byLevel[l]
		if len(cands) == 0 {
			break
		}
		pick := cands[0]
		if next := byLevel[l+1]; len(next) > 0 {
			found := false
			for _, c := range cands {
				if sameJSON(c.RawAct, next[0].Pact) {
					pick, found = c, true
					break
				}
			}
			if !found {
				break
			}
		}
		out = append(out, pick)
	}
	return out
}

func (e *engine) distinct(acts []Act) {
	b, _ := json.Marshal(acts)
	h := sha1.Sum(b)
	e.dist[string(h[:8])] = true
}

func newEngine(prop string, n, k, maxV int, journal string, skip int, waitMs int) *engine {
	e := &engine{prop: prop, n: n, k: k, seen: map[string]bool{}, dist: map[string]bool{}, maxV: maxV, journal: journal, skip: skip,
		wait: time.Duration(waitMs) * time.Millisecond}
	e.sum = Summary{Property: prop, Kind: "counter", DesyncWhy: map[string]int{}, Checked: map[string]int{}}
	e.newServer()
	return e
}

func (e *engine) newServer() {
	srv, err := rt.NewServer()
	if err != nil {
		fatal("server: %v", err)
	}
	if err := srv.St.CreateCollection("col"); err != nil {
		fatal("create collection: %v", err)
	}
	e.srv = srv
}

func main() {
	prop := flag.String("prop", "C18", "property whose oracle is evaluated")
	_ = flag.String("kind", "counter", "datatype kind (counters only)")
	n := flag.Int("n", 2, "clients")
	in := flag.String("in", "", "file with EDGE / STEP lines")
	maxV := flag.Int("maxv", 5, "violations kept")
	rf := flag.String("replayfile", "", "re-run a violation record")
	verbose := flag.Bool("v", false, "verbose replayfile mode")
	journal := flag.String("journal", "", "file that always holds the behaviour in flight")
	skip := flag.Int("skip", 0, "skip this many behaviours of the input")
	waitMs := flag.Int("grace", 3, "milliseconds to wait for stray requests after the final comparison")
	stopAfter := flag.Int("stopafter", 10, "stop after this many violations (each costs a deadline wait)")
	flag.Parse()
	if os.Getenv("VERIF_STDERR") == "" {
		if dn, err := os.OpenFile("/dev/null", os.O_WRONLY, 0); err == nil {
			syscall.Dup2(int(dn.Fd()), 2)
		}
	}
	if *rf != "" {
		os.Exit(replayFile(*rf, *verbose))
	}
	var e *engine
	mk := func(ob *Obs) {
		if e == nil {
			e = newEngine(*prop, len(ob.Cp), len(ob.Log), *maxV, *journal, *skip, *waitMs)
		}
	}
	_ = n
	f := os.Stdin
	if *in != "" {
		var err error
		if f, err = os.Open(*in); err != nil {
			fatal("cannot open input")
		}
	}
	sc := bufio.NewScanner(f)
	sc.Buffer(make([]byte, 1<<20), 1<<28)
	var walk []Step
	flush := func() {
		if len(walk) == 0 {
			return
		}
		chosen := chooseWalk(walk)
		walk = nil
		if len(chosen) < 2 {
			return
		}
		acts := make([]Act, len(chosen))
		for i := range chosen {
			acts[i] = chosen[i].Act
		}
		mk(&chosen[0].Obs)
		e.distinct(acts)
		e.behaviour(acts, func(i int) *Obs { return &chosen[i].Obs })
		if len(e.sum.Samples) < 2 {
			e.sum.Samples = append(e.sum.Samples, map[string]interface{}{"mode": "walk", "acts": acts})
		}
	}
	for sc.Scan() {
		if e != nil && e.sum.NViol >= *stopAfter {
			walk = nil
			break
		}
		line := sc.Text()
		if strings.HasPrefix(line, "\"EDGE ") || strings.HasPrefix(line, "\"STEP ") {
			var unq string
			if err := json.Unmarshal([]byte(line), &unq); err != nil {
				fatal("cannot unquote line: %v", err)
			}
			line = unq
		}
		switch {
		case strings.HasPrefix(line, "EDGE "):
			var ed Edge
			if err := json.Unmarshal([]byte(line[5:]), &ed); err != nil {
				fatal("bad EDGE line: %v", err)
			}
			mk(&ed.Obs)
			last := len(ed.Hist) - 1
			e.distinct(ed.Hist)
			e.behaviour(ed.Hist, func(i int) *Obs {
				if i == last {
					return &ed.Obs
				}
				return nil
			})
			if len(e.sum.Samples) < 2 && len(ed.Hist) > 4 {
				e.sum.Samples = append(e.sum.Samples, map[string]interface{}{"mode": "edge", "acts": ed.Hist, "obs": ed.Obs})
			}
		case strings.HasPrefix(line, "STEP "):
			var st Step
			if err := json.Unmarshal([]byte(line[5:]), &st); err != nil {
				fatal("bad STEP line: %v", err)
			}
			var rawL struct {
				Act json.RawMessage `json:"act"`
			}
			json.Unmarshal([]byte(line[5:]), &rawL)
			st.RawAct = rawL.Act
			if len(walk) > 0 && (st.T != walk[0].T || st.L < walk[len(walk)-1].L) {
				flush()
			}
			walk = append(walk, st)
		}
	}
	flush()
	if e == nil {
		fmt.Println(`{"behaviours":0,"nviol":0}`)
		return
	}
	e.sum.Distinct = len(e.dist)
	out, _ := json.Marshal(e.sum)
	fmt.Println(string(out))
	if e.sum.NViol > 0 {
		os.Exit(1)
	}
}

func replayFile(path string, verbose bool) int {
	b, err := os.ReadFile(path)
	if err != nil {
		fmt.Println("cannot read", path)
		return 2
	}
	var v Violation
	if err := json.Unmarshal(b, &v); err != nil {
		fmt.Println("bad replay file:", err)
		return 2
	}
	e := newEngine(v.Property, v.N, v.K, 1, "", 0, 20)
	e.slowAll = true
	last := len(v.Steps) - 1
	e.behaviour(v.Steps, func(i int) *Obs {
		if i == last {
			return v.Obs
		}
		return nil
	})
	if verbose {
		out, _ := json.MarshalIndent(e.sum, "", " ")
		fmt.Println(string(out))
	}
	if e.sum.NViol > 0 {
		fmt.Printf("reproduced: %s\n", e.sum.Violations[0].Why)
		return 1
	}
	fmt.Println("not reproduced")
	return 0
}
