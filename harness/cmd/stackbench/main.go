package main

import (
	"fmt"
	"os"
	"syscall"
	"time"

	"verifharness/stack"
)

func main() {
	dn, _ := os.OpenFile("/dev/null", os.O_WRONLY, 0)
	syscall.Dup2(int(dn.Fd()), 2)
	t0 := time.Now()
	n := 50
	for i := 0; i < n; i++ {
		s, err := stack.New()
		if err != nil {
			panic(err)
		}
		if err := s.CreateCollection("col"); err != nil {
			panic(err)
		}
		c := stack.NewClient("col", "a")
		d := c.Open("counter", "k", "dueCreate")
		if err := s.Register(c); err != nil {
			panic(err)
		}
		r := s.Serve(d.Request(), time.Second)
		if r.Resp == nil {
			panic(fmt.Sprint(r))
		}
		d.Apply(r.Resp)
		s.Close()
	}
	fmt.Println("per stack+create:", time.Since(t0)/time.Duration(n))
}
