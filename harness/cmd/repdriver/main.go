// Command repdriver records LONG random histories of real replicas (I->S, C01 C02 C04 C15): 2-5 real replicas of
// one datatype, seeded random local calls (batches of up to a dozen values, so that element identifiers of
// different widths meet), pushes and deliveries in server-log order. Every event is written with the projection
// the properties speak about - the call and what it returned, the replica's view, size and operation id - as one
// ndjson line; TLC validates the trace against OrdaReplicaTrace, re-executing every event with the
// specification's kernels and evaluating all invariants of OrdaReplica in every state.
package main

import (
	"encoding/json"
	"flag"
	"fmt"
	"math/rand"
	"os"
	"sort"
	"syscall"

	"github.com/orda-io/orda/client/pkg/model"
	"github.com/orda-io/orda/client/pkg/operations"

	"verifharness/replica"
	"verifharness/spec"
	"verifharness/vals"
)

type ev map[string]interface{}

type Violation struct {
	Property string `json:"property"`
	Kind     string `json:"kind"`
	Class    string `json:"class"`
	Why      string `json:"why"`
	Steps    []ev   `json:"steps"`
	Hash     string `json:"hash"`
	Tool     string `json:"tool"`
}

// tags whose canonical form is unique (see harness/vals: int8 values wrap)
type tagger struct{ next int }

func (t *tagger) tag() int {
	for {
		t.next++
		x := t.next
		if x%3 == 1 && (x/3)%9 == 1 {
			continue
		}
		return x
	}
}

func raw(v interface{}) json.RawMessage { b, _ := json.Marshal(v); return b }

// container of a document view: path from the root, kind, number of children / keys present
type cont struct {
	path []string
	arr  bool
	n    int
	keys []string
}

func containers(v interface{}, path []string, out *[]cont) {
	switch x := v.(type) {
	case map[string]interface{}:
		c := cont{path: append([]string{}, path...)}
		for k := range x {
			c.keys = append(c.keys, k)
		}
		sort.Strings(c.keys)
		*out = append(*out, c)
		for _, k := range c.keys {
			containers(x[k], append(append([]string{}, path...), k), out)
		}
	case []interface{}:
		*out = append(*out, cont{path: append([]string{}, path...), arr: true, n: len(x)})
		for i, e := range x {
			containers(e, append(append([]string{}, path...), fmt.Sprint(i)), out)
		}
	}
}

func main() {
	kind := flag.String("kind", "list", "counter|map|list")
	rounds := flag.Int("rounds", 5, "histories")
	steps := flag.Int("steps", 120, "events per history")
	seed := flag.Int64("seed", 1, "seed")
	out := flag.String("out", "trace.ndjson", "trace file")
	txs := flag.Bool("tx", true, "include user transactions (committed and aborted)")
	flag.Parse()
	if os.Getenv("VERIF_STDERR") == "" {
		if dn, err := os.OpenFile("/dev/null", os.O_WRONLY, 0); err == nil {
			syscall.Dup2(int(dn.Fd()), 2)
		}
	}
	rng := rand.New(rand.NewSource(*seed))
	f, err := os.Create(*out)
	if err != nil {
		fmt.Println(`{"error":"cannot create trace file"}`)
		os.Exit(3)
	}
	enc := json.NewEncoder(f)
	var viol []Violation
	nevents := 0
	for r := 0; r < *rounds; r++ {
		n := 2 + rng.Intn(4)
		// every other round of Documents is a contention round: three or more replicas put and remove primitive values
		// under the two root keys most of the time (several concurrent removes and puts of one key, delivered in every order)
		hot := *kind == "doc" && r%2 == 1
		if hot && n < 3 {
			n = 3
		}
		w := replica.NewWorld(*kind, n)
		tg := &tagger{next: 1000 * (r%30 + 1)} // values stay below the smallest integer width of vals.Go (int16); histories are separated by resets
		back := map[string]int{} // canonical value -> tag
		var trace []ev
		toTags := func(v interface{}) interface{} {
			switch x := v.(type) {
			case []interface{}:
				o := []interface{}{}
				for _, e := range x {
					if t, ok := back[vals.Str(e)]; ok {
						o = append(o, t)
					} else {
						o = append(o, "unknown:"+vals.Str(e))
					}
				}
				return o
			case map[string]interface{}:
				o := map[string]interface{}{}
				for k, e := range x {
					if k == "Map" {
						if m, ok := e.(map[string]interface{}); ok {
							x = m
							o = map[string]interface{}{}
							for kk, ee := range x {
								if t, ok := back[vals.Str(ee)]; ok {
									o[kk] = t
								} else {
									o[kk] = "unknown:" + vals.Str(ee)
								}
							}
							return o
						}
					}
					if t, ok := back[vals.Str(e)]; ok {
						o[k] = t
					} else {
						o[k] = "unknown:" + vals.Str(e)
					}
				}
				return o
			}
			return v
		}
		// documents: the view in the specification's value encoding, random values of a few shapes
		var encView func(v interface{}) interface{}
		encView = func(v interface{}) interface{} {
			switch x := v.(type) {
			case map[string]interface{}:
				o := map[string]interface{}{}
				for k, e := range x {
					o[k] = encView(e)
				}
				return map[string]interface{}{"t": "o", "o": o}
			case []interface{}:
				a := []interface{}{}
				for _, e := range x {
					a = append(a, encView(e))
				}
				return map[string]interface{}{"t": "a", "a": a}
			}
			if t, ok := back[vals.Str(v)]; ok {
				return map[string]interface{}{"t": "p", "p": t}
			}
			return map[string]interface{}{"t": "p", "p": "unknown:" + vals.Str(v)}
		}
		var docVal func(depth int) interface{}
		docVal = func(depth int) interface{} {
			prim := func() interface{} {
				t := tg.tag()
				back[vals.Str(vals.Canon(t))] = t
				return map[string]interface{}{"t": "p", "p": t}
			}
			if depth >= 2 {
				return prim()
			}
			switch rng.Intn(7) {
			case 0:
				return map[string]interface{}{"t": "o", "o": map[string]interface{}{}}
			case 1:
				return map[string]interface{}{"t": "o", "o": map[string]interface{}{"x": docVal(depth + 1)}}
			case 2:
				return map[string]interface{}{"t": "o", "o": map[string]interface{}{"x": docVal(depth + 1), "y": docVal(depth + 1)}}
			case 3:
				return map[string]interface{}{"t": "a", "a": []interface{}{}}
			case 4:
				return map[string]interface{}{"t": "a", "a": []interface{}{docVal(depth + 1), docVal(depth + 1)}}
			}
			return prim()
		}
		newVals := func(c int) ([]json.RawMessage, []int) {
			var rs []json.RawMessage
			var ts []int
			for i := 0; i < c; i++ {
				t := tg.tag()
				back[vals.Str(vals.Canon(t))] = t
				rs = append(rs, raw(t))
				ts = append(ts, t)
			}
			return rs, ts
		}
		viewOf := func(v interface{}) interface{} {
			if *kind == "doc" {
				return encView(v)
			}
			return toTags(v)
		}
		fail := func(class, why string) {
			viol = append(viol, Violation{Property: "C01", Kind: *kind, Class: class, Why: why, Steps: trace, Tool: "repdriver", Hash: fmt.Sprintf("rep-%s-%d-%d", *kind, *seed, r)})
		}
		ok := true
		for s := 0; s < *steps && ok; s++ {
			c := 1 + rng.Intn(n)
			rep := w.Reps[c-1]
			switch x := rng.Intn(10); {
			case x < 5: // a local call
				ob := rep.Observe()
				var call spec.Call
				var cj ev
				switch *kind {
				case "counter":
					d := rng.Intn(7) - 3
					call = spec.Call{Op: "inc", D: d}
					cj = ev{"op": "inc", "d": d}
				case "map":
					k := []string{"a", "b", "c"}[rng.Intn(3)]
					live := false
					if m, isMap := ob.View.(map[string]interface{}); isMap {
						_, live = m[k]
					}
					if live && rng.Intn(3) == 0 {
						call = spec.Call{Op: "remove", K: k}
						cj = ev{"op": "remove", "k": k}
					} else {
						rs, ts := newVals(1)
						call = spec.Call{Op: "put", K: k, V: rs[0]}
						cj = ev{"op": "put", "k": k, "v": ts[0]}
					}
				case "doc":
					var cs []cont
					containers(ob.View, nil, &cs)
					ct := cs[rng.Intn(len(cs))]
					hotCall := hot && rng.Intn(10) < 7
					if hotCall {
						for _, c0 := range cs {
							if len(c0.path) == 0 {
								ct = c0
							}
						}
					}
					var path []json.RawMessage
					for _, p := range ct.path {
						path = append(path, raw(p))
					}
					if path == nil {
						path = []json.RawMessage{}
					}
					switch {
					case !ct.arr && len(ct.keys) > 0 && (rng.Intn(4) == 0 || (hotCall && rng.Intn(2) == 0)):
						k := ct.keys[rng.Intn(len(ct.keys))]
						if hotCall {
							for _, k0 := range ct.keys {
								if k0 == "x" && rng.Intn(5) < 4 {
									k = k0
								}
							}
						}
						call = spec.Call{Op: "rmv", Path: path, K: k}
						cj = ev{"op": "rmv", "path": ct.path, "k": k}
					case !ct.arr:
						k := []string{"x", "y"}[rng.Intn(2)]
						v := docVal(0)
						if hotCall {
							v = docVal(2) // a primitive
							if rng.Intn(5) < 4 {
								k = "x"
							}
						}
						call = spec.Call{Op: "put", Path: path, K: k, V: raw(v)}
						cj = ev{"op": "put", "path": ct.path, "k": k, "v": v}
					case ct.n > 0 && rng.Intn(4) == 0:
						cnt := 1 + rng.Intn(min(ct.n, 2))
						pos := rng.Intn(ct.n - cnt + 1)
						call = spec.Call{Op: "del", Path: path, Pos: pos, N: cnt}
						cj = ev{"op": "del", "path": ct.path, "pos": pos, "n": cnt}
					case ct.n > 0 && rng.Intn(3) == 0:
						pos := rng.Intn(ct.n)
						v := docVal(1)
						call = spec.Call{Op: "upd", Path: path, Pos: pos, Vals: []json.RawMessage{raw(v)}}
						cj = ev{"op": "upd", "path": ct.path, "pos": pos, "vals": []interface{}{v}}
					default:
						cnt := 1 + rng.Intn(2)
						var vs []interface{}
						var rs []json.RawMessage
						for j := 0; j < cnt; j++ {
							v := docVal(1)
							vs, rs = append(vs, v), append(rs, raw(v))
						}
						pos := rng.Intn(ct.n + 1)
						call = spec.Call{Op: "ins", Path: path, Pos: pos, Vals: rs}
						cj = ev{"op": "ins", "path": ct.path, "pos": pos, "vals": vs}
					}
					if cj["path"] == nil || len(ct.path) == 0 {
						cj["path"] = []string{}
					}
				case "list":
					sz := ob.Size
					switch y := rng.Intn(6); {
					case y < 3 || sz == 0:
						cnt := 1 + rng.Intn(3)
						if rng.Intn(6) == 0 {
							cnt = 10 + rng.Intn(4) // delimiters of two digits
						}
						rs, ts := newVals(cnt)
						pos := rng.Intn(sz + 1)
						call = spec.Call{Op: "insert", Pos: pos, Vals: rs}
						cj = ev{"op": "insert", "pos": pos, "vals": ts}
					case y < 5:
						cnt := 1 + rng.Intn(min(sz, 3))
						pos := rng.Intn(sz - cnt + 1)
						rs, ts := newVals(cnt)
						call = spec.Call{Op: "update", Pos: pos, Vals: rs}
						cj = ev{"op": "update", "pos": pos, "vals": ts}
					default:
						cnt := 1 + rng.Intn(min(sz, 3))
						pos := rng.Intn(sz - cnt + 1)
						call = spec.Call{Op: "delete", Pos: pos, N: cnt}
						cj = ev{"op": "delete", "pos": pos, "n": cnt}
					}
				}
				res := rep.Call(&call)
				if res.Panic != "" || res.Err {
					fail("error", fmt.Sprintf("a valid local call failed: %v %s", cj, res.Panic))
					ok = false
					break
				}
				o := rep.Observe()
				trace = append(trace, ev{"event": "local", "r": c, "call": cj, "view": viewOf(o.View), "size": o.Size, "opid": []uint64{o.NextL, o.NextS}})
			case x == 5 && *txs && *kind != "doc": // a user transaction of 1-3 calls, committed or aborted
				ob := rep.Observe()
				sz := ob.Size
				live := map[string]bool{}
				if m, isMap := ob.View.(map[string]interface{}); isMap {
					for k := range m {
						live[k] = true
					}
				}
				var calls []spec.Call
				var cjs []ev
				for j := 1 + rng.Intn(3); j > 0; j-- {
					switch *kind {
					case "counter":
						d := rng.Intn(7) - 3
						calls, cjs = append(calls, spec.Call{Op: "inc", D: d}), append(cjs, ev{"op": "inc", "d": d})
					case "map":
						k := []string{"a", "b", "c"}[rng.Intn(3)]
						if live[k] && rng.Intn(3) == 0 {
							calls, cjs = append(calls, spec.Call{Op: "remove", K: k}), append(cjs, ev{"op": "remove", "k": k})
							live[k] = false
						} else {
							rs, ts := newVals(1)
							calls, cjs = append(calls, spec.Call{Op: "put", K: k, V: rs[0]}), append(cjs, ev{"op": "put", "k": k, "v": ts[0]})
							live[k] = true
						}
					case "list":
						if sz == 0 || rng.Intn(3) > 0 {
							cnt := 1 + rng.Intn(2)
							rs, ts := newVals(cnt)
							pos := rng.Intn(sz + 1)
							calls, cjs = append(calls, spec.Call{Op: "insert", Pos: pos, Vals: rs}), append(cjs, ev{"op": "insert", "pos": pos, "vals": ts})
							sz += cnt
						} else {
							pos := rng.Intn(sz)
							calls, cjs = append(calls, spec.Call{Op: "delete", Pos: pos, N: 1}), append(cjs, ev{"op": "delete", "pos": pos, "n": 1})
							sz--
						}
					}
				}
				commit := rng.Intn(3) > 0
				rets, _, pan := rep.Tx(calls, commit)
				bad := pan != ""
				for _, rr := range rets {
					bad = bad || rr.Err || rr.Panic != ""
				}
				if bad {
					fail("error", fmt.Sprintf("a valid call inside a transaction failed: %v %s", cjs, pan))
					ok = false
					break
				}
				o := rep.Observe()
				trace = append(trace, ev{"event": "tx", "r": c, "calls": cjs, "commit": commit, "view": toTags(o.View), "size": o.Size,
					"opid": []uint64{o.NextL, o.NextS}, "npend": len(o.Pending) - 1})
			case x < 7: // push
				if k := w.Push(c); k > 0 {
					trace = append(trace, ev{"event": "push", "r": c, "n": k})
				}
			default: // deliver the next unit of the log
				i := w.Pulled[c-1]
				if i >= len(w.Log) {
					continue
				}
				k := 1
				if w.Log[i].Op.OpType == model.TypeOfOperation_TRANSACTION {
					if tx, isTx := operations.ModelToOperation(w.Log[i].Op).(*operations.TransactionOperation); isTx && tx.GetNumOfOps() > 0 {
						k = int(tx.GetNumOfOps())
					}
				}
				_, errd, pan := w.Deliver(c, k)
				if pan != "" || errd {
					fail("error", "a delivery in log order failed: "+pan)
					ok = false
					break
				}
				o := rep.Observe()
				trace = append(trace, ev{"event": "deliver", "r": c, "n": k, "view": viewOf(o.View), "size": o.Size, "opid": []uint64{o.NextL, o.NextS}})
			}
		}
		trace = append(trace, ev{"event": "reset"})
		for _, e := range trace {
			enc.Encode(e)
			nevents++
		}
	}
	f.Close()
	sum := map[string]interface{}{"rounds": *rounds, "events": nevents, "nviol": len(viol), "violations": viol}
	b, _ := json.Marshal(sum)
	fmt.Println(string(b))
	if len(viol) > 0 {
		os.Exit(1)
	}
}

func min(a, b int) int {
	if a < b {
		return a
	}
	return b
}
