// Package stack builds the real orda server (service.OrdaService with its managers) in process on
// top of the in-memory MongoDB wire server and the MQTT broker stand-in, and real clients that are
// driven at pack level (CreatePushPullPack -> ProcessPushPull -> ApplyPushPullPack), the way
// server/wrapper.DatatypeWrapper and the repository's own service_test.go do.
package stack

import (
	gocontext "context"
	"fmt"
	"io"
	"os"
	"sort"
	"strconv"
	"sync"
	"time"

	"github.com/orda-io/orda/client/pkg/context"
	"github.com/orda-io/orda/client/pkg/errors"
	"github.com/orda-io/orda/client/pkg/iface"
	ordalog "github.com/orda-io/orda/client/pkg/log"
	"github.com/orda-io/orda/client/pkg/model"
	"github.com/orda-io/orda/client/pkg/orda"
	"github.com/orda-io/orda/server/managers"
	"github.com/orda-io/orda/server/mongodb"
	"github.com/orda-io/orda/server/notification"
	"github.com/orda-io/orda/server/redis"
	"github.com/orda-io/orda/server/schema"
	"github.com/orda-io/orda/server/service"
	"github.com/orda-io/orda/server/snapshot"
	"github.com/sirupsen/logrus"
	"go.mongodb.org/mongo-driver/bson"
	"google.golang.org/protobuf/proto"

	"verifharness/fakemongo"
	"verifharness/fakemqtt"
)

const DB = "orda"

func init() {
	ordalog.Logger.Logger.SetOutput(io.Discard)
	ordalog.Logger.Logger.SetLevel(logrus.PanicLevel)
}

// Stack is one server process image: store, broker, managers, service.
type Stack struct {
	FM   *fakemongo.Server
	BR   *fakemqtt.Broker
	Mgrs *managers.Managers
	Svc  *service.OrdaService
	Ctx  iface.OrdaContext
}

// New starts the fake store and broker and a service on top of them.
func New() (*Stack, error) {
	fm, err := fakemongo.New()
	if err != nil {
		return nil, err
	}
	br, err := fakemqtt.New()
	if err != nil {
		return nil, err
	}
	s := &Stack{FM: fm, BR: br}
	if err := s.Boot(); err != nil {
		return nil, err
	}
	return s, nil
}

// Boot (re)creates managers and service on the existing store: a server (re)start.
func (s *Stack) Boot() error {
	s.Ctx = context.NewOrdaContext(gocontext.TODO(), "verif")
	repo, oerr := mongodb.New(s.Ctx, &mongodb.Config{Host: s.FM.Addr(), OrdaDB: DB, User: "u", Password: "p", Options: "authMechanism=PLAIN"})
	if oerr != nil {
		return fmt.Errorf("mongodb.New: %v", oerr)
	}
	notifier, oerr := notification.NewNotifier(s.Ctx, s.BR.Addr())
	if oerr != nil {
		return fmt.Errorf("notifier: %v", oerr)
	}
	rc, oerr := redis.New(s.Ctx, nil)
	if oerr != nil {
		return fmt.Errorf("redis: %v", oerr)
	}
	s.Mgrs = &managers.Managers{Mongo: repo, Notifier: notifier, Redis: rc}
	s.Svc = service.NewOrdaService(s.Mgrs)
	return nil
}

// CreateCollection creates a collection through the service.
func (s *Stack) CreateCollection(name string) error {
	_, err := s.Svc.CreateCollection(gocontext.TODO(), &model.CollectionMessage{Collection: name})
	return err
}

// Events are the handler calls of one datatype, in order.
type Events struct {
	mu     sync.Mutex
	States []string // "old->new"
	Errors []string
	Remote int // operations reported to the remote-operation handler
}

func (e *Events) Snapshot() (states []string, errs []string, remote int) {
	e.mu.Lock()
	defer e.mu.Unlock()
	return append([]string{}, e.States...), append([]string{}, e.Errors...), e.Remote
}

// Client is a real orda client in manual sync mode, driven at pack level.
type Client struct {
	C      orda.Client
	Model  *model.Client
	Col    string
	reqNum uint32
}

// DT is one datatype of a client.
type DT struct {
	Cl      *Client
	Key     string
	Kind    string
	DT      iface.Datatype
	Counter orda.Counter
	List    orda.List
	Map     orda.Map
	Doc     orda.Document
	Ev      *Events
}

// NewClient creates a client for the collection (not yet registered at the server).
func NewClient(col, alias string) *Client {
	conf := &orda.ClientConfig{CollectionName: col, SyncType: model.SyncType_MANUALLY}
	c := orda.NewClient(conf, alias)
	return &Client{C: c, Col: col}
}

// Register performs the client exchange (ProcessClient).
func (s *Stack) Register(c *Client) error {
	if c.Model == nil {
		return fmt.Errorf("client has no datatype yet: its model is read from a datatype context")
	}
	_, err := s.Svc.ProcessClient(gocontext.TODO(), model.NewClientMessage(c.Model))
	return err
}

// Open opens a datatype of the given kind and entry mode ("dueCreate", "dueSub", "dueSubCreate").
func (c *Client) Open(kind, key, mode string) *DT {
	ev := &Events{}
	h := orda.NewHandlers(
		func(dt orda.Datatype, old, new model.StateOfDatatype) {
			ev.mu.Lock()
			ev.States = append(ev.States, old.String()+"->"+new.String())
			ev.mu.Unlock()
		},
		func(dt orda.Datatype, opList []interface{}) {
			ev.mu.Lock()
			ev.Remote += len(opList)
			ev.mu.Unlock()
		},
		func(dt orda.Datatype, errs ...errors.OrdaError) {
			ev.mu.Lock()
			for _, e := range errs {
				ev.Errors = append(ev.Errors, e.Error())
			}
			ev.mu.Unlock()
		})
	d := &DT{Cl: c, Key: key, Kind: kind, Ev: ev}
	switch kind {
	case "counter":
		switch mode {
		case "dueCreate":
			d.Counter = c.C.CreateCounter(key, h)
		case "dueSub":
			d.Counter = c.C.SubscribeCounter(key, h)
		default:
			d.Counter = c.C.SubscribeOrCreateCounter(key, h)
		}
		d.DT = d.Counter.(iface.Datatype)
	case "list":
		switch mode {
		case "dueCreate":
			d.List = c.C.CreateList(key, h)
		case "dueSub":
			d.List = c.C.SubscribeList(key, h)
		default:
			d.List = c.C.SubscribeOrCreateList(key, h)
		}
		d.DT = d.List.(iface.Datatype)
	case "map":
		switch mode {
		case "dueCreate":
			d.Map = c.C.CreateMap(key, h)
		case "dueSub":
			d.Map = c.C.SubscribeMap(key, h)
		default:
			d.Map = c.C.SubscribeOrCreateMap(key, h)
		}
		d.DT = d.Map.(iface.Datatype)
	case "doc":
		switch mode {
		case "dueCreate":
			d.Doc = c.C.CreateDocument(key, h)
		case "dueSub":
			d.Doc = c.C.SubscribeDocument(key, h)
		default:
			d.Doc = c.C.SubscribeOrCreateDocument(key, h)
		}
		d.DT = d.Doc.(iface.Datatype)
	}
	if c.Model == nil {
		ctx := d.DT.(iface.BaseDatatype).GetCtx().(*context.DatatypeContext)
		c.Model = ctx.ClientContext.Client
	}
	return d
}

// Request builds the push-pull message the client would send now, serialized as on the wire.
func (d *DT) Request() []byte {
	d.Cl.reqNum++
	msg := model.NewPushPullMessage(d.Cl.reqNum, d.Cl.Model, d.DT.CreatePushPullPack())
	b, err := proto.Marshal(msg)
	if err != nil {
		panic(err)
	}
	return b
}

// RequestMsg builds the push-pull message the client would send now (for mutation by the harness).
func (d *DT) RequestMsg() *model.PushPullMessage {
	d.Cl.reqNum++
	return model.NewPushPullMessage(d.Cl.reqNum, d.Cl.Model, d.DT.CreatePushPullPack())
}

// Marshal serializes a message as on the wire.
func Marshal(msg *model.PushPullMessage) []byte {
	b, err := proto.Marshal(msg)
	if err != nil {
		panic(err)
	}
	return b
}

// ResetCollection calls the service's ResetCollection.
func (s *Stack) ResetCollection(name string) error {
	_, err := s.Svc.ResetCollection(gocontext.TODO(), &model.CollectionMessage{Collection: name})
	return err
}

// ServeResult is the outcome of one ProcessPushPull call.
type ServeResult struct {
	Resp    []byte // serialized response message (nil if none)
	RPCErr  string
	Timeout bool
	Panic   string
}

// Serve delivers a serialized request to the service with its own request context, which is
// cancelled when the call returns (as gRPC does), under a deadline watchdog.
func (s *Stack) Serve(req []byte, deadline time.Duration) ServeResult {
	ctx, cancel := gocontext.WithCancel(gocontext.Background())
	defer cancel()
	return s.ServeCtx(ctx, req, deadline)
}

// Unmarshal decodes a serialized push-pull message.
func Unmarshal(b []byte) *model.PushPullMessage {
	msg := &model.PushPullMessage{}
	_ = proto.Unmarshal(b, msg)
	return msg
}

// ServeCtx is Serve with a caller-supplied request context (a long-lived one lets the background
// work that the handler starts with the request's context run to its end).
func (s *Stack) ServeCtx(ctx gocontext.Context, req []byte, deadline time.Duration) ServeResult {
	msg := &model.PushPullMessage{}
	if err := proto.Unmarshal(req, msg); err != nil {
		return ServeResult{RPCErr: "harness: " + err.Error()}
	}
	done := make(chan ServeResult, 1)
	svc := s.Svc
	go func() {
		var r ServeResult
		defer func() {
			if p := recover(); p != nil {
				r.Panic = fmt.Sprint(p)
			}
			done <- r
		}()
		res, err := svc.ProcessPushPull(ctx, msg)
		if err != nil {
			r.RPCErr = err.Error()
			return
		}
		b, merr := proto.Marshal(res)
		if merr != nil {
			r.RPCErr = "harness: " + merr.Error()
			return
		}
		r.Resp = b
	}()
	select {
	case r := <-done:
		return r
	case <-time.After(deadline):
		return ServeResult{Timeout: true}
	}
}

// Apply hands the pack for this datatype's key in a serialized response to the datatype.
func (d *DT) Apply(resp []byte) (applied bool, pan string) {
	defer func() {
		if r := recover(); r != nil {
			pan = fmt.Sprint(r)
		}
	}()
	msg := &model.PushPullMessage{}
	if err := proto.Unmarshal(resp, msg); err != nil {
		return false, "harness: " + err.Error()
	}
	for _, p := range msg.PushPullPacks {
		if p.GetKey() == d.Key {
			d.DT.ApplyPushPullPack(p)
			applied = true
		}
	}
	return
}

// OpRow is one stored operation document.
// Patience scales a wall-clock limit after which the harness calls something "not answered" / "not arrived". The
// limits only matter when something fails; on a loaded machine (16 workers next to TLC) an answer may be seconds
// late, which is slowness and not a hang. VERIF_PATIENCE overrides the factor.
func Patience(d time.Duration) time.Duration {
	f := 3
	if s := os.Getenv("VERIF_PATIENCE"); s != "" {
		if n, err := strconv.Atoi(s); err == nil && n > 0 {
			f = n
		}
	}
	return d * time.Duration(f)
}

type OpRow struct {
	ID     string
	DUID   string
	ColNum int32
	Sseq   uint64
	CUID   string
	Seq    uint64
	Type   string
	L      uint64 // lamport of the operation's identifier
}

// Store is the projection of the database the properties speak about.
type Store struct {
	Ops        map[string][]OpRow // by duid, in storage order
	Datatypes  []DatatypeRow
	Snapshots  []SnapRow
	Clients    []string
	ClientCols map[string]int32 // collection number each registered client belongs to
	Cols       map[string]int32
	UserDocs   map[string][]bson.D // by user collection
	Raw        map[string][]bson.D
}

type DatatypeRow struct {
	DUID   string
	Key    string
	ColNum int32
	Type   string
	End    uint64
	CP     map[string][2]uint64 // rw clients: cuid -> (sseq, cseq)
	RO     map[string][2]uint64
}

type SnapRow struct {
	ID     string
	DUID   string
	ColNum int32
	Sseq   uint64
}

func num(v interface{}) uint64 {
	switch x := v.(type) {
	case int32:
		return uint64(x)
	case int64:
		return uint64(x)
	case float64:
		return uint64(x)
	case uint64:
		return x
	case uint32:
		return uint64(x)
	}
	return 0
}

func get(d bson.D, k string) interface{} {
	for _, e := range d {
		if e.Key == k {
			return e.Value
		}
	}
	return nil
}

func asD(v interface{}) bson.D {
	if d, ok := v.(bson.D); ok {
		return d
	}
	return nil
}

// ReadStore decodes the fake database.
func (s *Stack) ReadStore() *Store {
	raw := s.FM.DumpAll(DB)
	st := &Store{Ops: map[string][]OpRow{}, Cols: map[string]int32{}, ClientCols: map[string]int32{}, UserDocs: map[string][]bson.D{}, Raw: raw}
	for name, docs := range raw {
		switch name {
		case schema.CollectionNameOperations:
			for _, d := range docs {
				b, _ := bson.Marshal(d)
				var od schema.OperationDoc
				_ = bson.Unmarshal(b, &od)
				op := od.GetOperation()
				r := OpRow{ID: od.ID, DUID: od.DUID, ColNum: od.CollectionNum, Sseq: od.Sseq}
				if op != nil && op.ID != nil {
					r.CUID, r.Seq, r.Type, r.L = op.ID.CUID, op.ID.Seq, op.OpType.String(), op.ID.Lamport
				}
				st.Ops[od.DUID] = append(st.Ops[od.DUID], r)
			}
		case schema.CollectionNameDatatypes:
			for _, d := range docs {
				b, _ := bson.Marshal(d)
				var dd schema.DatatypeDoc
				_ = bson.Unmarshal(b, &dd)
				row := DatatypeRow{DUID: dd.DUID, Key: dd.Key, ColNum: dd.CollectionNum, Type: dd.Type, End: dd.Sseq.End,
					CP: map[string][2]uint64{}, RO: map[string][2]uint64{}}
				for cu, sc := range dd.RWClients {
					if sc != nil && sc.CP != nil {
						row.CP[cu] = [2]uint64{sc.CP.Sseq, sc.CP.Cseq}
					}
				}
				for cu, sc := range dd.ROClients {
					if sc != nil && sc.CP != nil {
						row.RO[cu] = [2]uint64{sc.CP.Sseq, sc.CP.Cseq}
					}
				}
				st.Datatypes = append(st.Datatypes, row)
			}
		case schema.CollectionNameSnapshot:
			for _, d := range docs {
				st.Snapshots = append(st.Snapshots, SnapRow{ID: fmt.Sprint(get(d, "_id")), DUID: fmt.Sprint(get(d, "duid")),
					ColNum: int32(num(get(d, "colNum"))), Sseq: num(get(d, "sseq"))})
			}
		case schema.CollectionNameClients:
			for _, d := range docs {
				st.Clients = append(st.Clients, fmt.Sprint(get(d, "_id")))
				st.ClientCols[fmt.Sprint(get(d, "_id"))] = int32(num(get(d, "colNum")))
			}
		case schema.CollectionNameCollections:
			for _, d := range docs {
				st.Cols[fmt.Sprint(get(d, "_id"))] = int32(num(get(d, "num")))
			}
		case schema.CollectionNameColNumGenerator:
		default:
			st.UserDocs[name] = docs
		}
	}
	sort.Strings(st.Clients)
	sort.Slice(st.Datatypes, func(i, j int) bool { return st.Datatypes[i].DUID < st.Datatypes[j].DUID })
	sort.Slice(st.Snapshots, func(i, j int) bool { return st.Snapshots[i].ID < st.Snapshots[j].ID })
	return st
}

// Rebuild returns the JSON view of the datatype the server rebuilds from its store
// (snapshot.Manager.GetLatestDatatype: latest snapshot plus later operations).
func (s *Stack) Rebuild(colName string, colNum int32, duid string) (view interface{}, sseq uint64, err error) {
	defer func() {
		if r := recover(); r != nil {
			err = fmt.Errorf("panic: %v", r)
		}
	}()
	dd, oerr := s.Mgrs.Mongo.GetDatatype(s.Ctx, duid)
	if oerr != nil {
		return nil, 0, oerr
	}
	if dd == nil {
		return nil, 0, fmt.Errorf("no datatype %s", duid)
	}
	m := snapshot.NewManager(s.Ctx, s.Mgrs, dd, &schema.CollectionDoc{Name: colName, Num: colNum})
	d, last, oerr := m.GetLatestDatatype()
	if oerr != nil {
		return nil, 0, oerr
	}
	return d.ToJSON(), last, nil
}

// Close releases the stack's resources.
func (s *Stack) Close() {
	// server side first, with a reset, so that no socket lingers in TIME_WAIT
	s.FM.Close()
	s.BR.Close()
	go func() {
		defer func() { recover() }()
		s.Mgrs.Close(s.Ctx)
	}()
}
