package replica

import "verifharness/spec"

func (in *Inst) docCall(api interface{}, c *spec.Call) (res Result) {
	panic("doc kind not wired yet")
}

func (in *Inst) docObserve(o *RObs) {
	panic("doc kind not wired yet")
}
