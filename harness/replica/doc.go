package replica

import (
	"encoding/json"
	"fmt"
	"strconv"

	"github.com/orda-io/orda/client/pkg/errors"
	"github.com/orda-io/orda/client/pkg/orda"

	"verifharness/spec"
	"verifharness/vals"
)

// DocValue decodes the specification's JSON value encoding
// ({"t":"p","p":tag} | {"t":"o","o":{k:v}} | {"t":"a","a":[v...]}) into the Go value handed to the
// API (goVal) and the canonical value a correct replica must show (canon).
func DocValue(raw json.RawMessage) (goVal interface{}, canon interface{}) {
	var v interface{}
	if err := json.Unmarshal(raw, &v); err != nil {
		panic(fmt.Sprintf("bad doc value %s", raw))
	}
	return docValue(v)
}

func docValue(v interface{}) (interface{}, interface{}) {
	m, ok := v.(map[string]interface{})
	if !ok {
		panic(fmt.Sprintf("bad doc value %v", v))
	}
	switch m["t"] {
	case "p":
		t := int(m["p"].(float64))
		if t == vals.Nil {
			return nil, nil
		}
		return vals.Go(t), vals.Canon(t)
	case "o":
		g, c := map[string]interface{}{}, map[string]interface{}{}
		if o, ok := m["o"].(map[string]interface{}); ok {
			for k, x := range o {
				g[k], c[k] = docValue(x)
			}
		}
		return g, c
	case "a":
		g, c := []interface{}{}, []interface{}{}
		if a, ok := m["a"].([]interface{}); ok {
			for _, x := range a {
				gx, cx := docValue(x)
				g, c = append(g, gx), append(c, cx)
			}
		}
		return g, c
	}
	panic(fmt.Sprintf("bad doc value %v", v))
}

// DocCanonAny converts a model value, or a list of model values, to canonical form.
func DocCanonAny(v interface{}) interface{} {
	switch x := v.(type) {
	case map[string]interface{}:
		if _, ok := x["t"]; ok {
			_, c := docValue(x)
			return c
		}
	case []interface{}:
		out := make([]interface{}, len(x))
		for i := range x {
			out[i] = DocCanonAny(x[i])
		}
		return out
	}
	return v
}

func pathOf(c *spec.Call) []string {
	out := make([]string, len(c.Path))
	for i, r := range c.Path {
		json.Unmarshal(r, &out[i])
	}
	return out
}

func resolve(root orda.DocumentInTx, path []string) (orda.Document, error) {
	var cur orda.Document
	at := root
	for _, s := range path {
		var next orda.Document
		var err errors.OrdaError
		if at.GetTypeOfJSON() == orda.TypeJSONObject {
			next, err = at.GetFromObject(s)
		} else {
			i, e := strconv.Atoi(s)
			if e != nil {
				return nil, e
			}
			next, err = at.GetFromArray(i)
		}
		if err != nil {
			return nil, err
		}
		if next == nil {
			return nil, fmt.Errorf("no child %q", s)
		}
		cur, at = next, next
	}
	return cur, nil
}

func docVals(raws []json.RawMessage) []interface{} {
	out := make([]interface{}, len(raws))
	for i, r := range raws {
		out[i], _ = DocValue(r)
	}
	return out
}

func docOf(d orda.Document) interface{} {
	if d == nil {
		return nil
	}
	c, _ := vals.CanonJSON(d.GetValue())
	return c
}

func docsOf(ds []orda.Document) interface{} {
	out := make([]interface{}, len(ds))
	for i, d := range ds {
		out[i] = docOf(d)
	}
	return out
}

func (in *Inst) docCall(api interface{}, c *spec.Call) (res Result) {
	defer guard(&res)
	root := api.(orda.DocumentInTx)
	var target orda.DocumentInTx = root
	if c.Dead {
		h, ok := in.handles[pathKey(pathOf(c))]
		if !ok || !h.IsGarbage() {
			res.Err = true
			res.Ret = SkipNoHandle
			return
		}
		target = h
	} else if p := pathOf(c); len(p) > 0 {
		d, err := resolve(root, p)
		if err != nil {
			res.Err = true
			res.Ret = "harness: cannot resolve path: " + err.Error()
			return
		}
		target = d
	}
	// a call whose (only) value is null is made once for every kind of null: nil and nil pointers
	isNull := func(raw json.RawMessage) bool { v, _ := DocValue(raw); return v == nil }
	if (c.Op == "put" && isNull(c.V)) || ((c.Op == "ins" || c.Op == "upd") && len(c.Vals) == 1 && isNull(c.Vals[0])) {
		res.Err = true
		for _, nv := range NullValues() {
			var err errors.OrdaError
			switch c.Op {
			case "put":
				_, err = target.PutToObject(c.K, nv)
			case "ins":
				_, err = target.InsertToArray(c.Pos, nv)
			default:
				_, err = target.UpdateManyInArray(c.Pos, nv)
			}
			res.Err = res.Err && !isNilErr(err)
		}
		return
	}
	switch c.Op {
	case "put":
		v, _ := DocValue(c.V)
		old, err := target.PutToObject(c.K, v)
		res.Err = !isNilErr(err)
		if !res.Err {
			res.Ret = docOf(old)
		}
	case "rmv":
		old, err := target.DeleteInObject(c.K)
		res.Err = !isNilErr(err)
		if !res.Err {
			res.Ret = docOf(old)
		}
	case "ins":
		_, err := target.InsertToArray(c.Pos, docVals(c.Vals)...)
		res.Err = !isNilErr(err)
	case "del":
		if c.N == 1 && c.Pos%2 == 0 {
			old, err := target.DeleteInArray(c.Pos)
			res.Err = !isNilErr(err)
			if !res.Err {
				res.Ret = []interface{}{docOf(old)}
			}
		} else {
			old, err := target.DeleteManyInArray(c.Pos, c.N)
			res.Err = !isNilErr(err)
			if !res.Err {
				res.Ret = docsOf(old)
			}
		}
	case "upd":
		old, err := target.UpdateManyInArray(c.Pos, docVals(c.Vals)...)
		res.Err = !isNilErr(err)
		if !res.Err {
			res.Ret = docsOf(old)
		}
	default:
		panic("doc op " + c.Op)
	}
	return
}

// SkipNoHandle marks a call on a removed container for which the harness holds no handle.
const SkipNoHandle = "harness: no handle of a removed container at this path"

func pathKey(p []string) string {
	b, _ := json.Marshal(p)
	return string(b)
}

// readTree rebuilds the JSON view through the element-read API (GetFromObject / GetFromArray) and
// remembers a handle of every container it passes, as a user holding on to child documents would.
func (in *Inst) readTree(d orda.Document, view interface{}, path []string) interface{} {
	switch view.(type) {
	case map[string]interface{}, []interface{}:
		if in.handles == nil {
			in.handles = map[string]orda.Document{}
		}
		in.handles[pathKey(path)] = d
	}
	sub := func(s string) []string { return append(append([]string{}, path...), s) }
	switch v := view.(type) {
	case map[string]interface{}:
		out := map[string]interface{}{}
		for k := range v {
			ch, err := d.GetFromObject(k)
			if err != nil || ch == nil {
				out[k] = "unreadable"
				continue
			}
			out[k] = in.readTree(ch, v[k], sub(k))
		}
		return out
	case []interface{}:
		out := []interface{}{}
		for i := range v {
			ch, err := d.GetFromArray(i)
			if err != nil || ch == nil {
				out = append(out, "unreadable")
				continue
			}
			out = append(out, in.readTree(ch, v[i], sub(strconv.Itoa(i))))
		}
		return out
	}
	c, _ := vals.CanonJSON(d.GetValue())
	return c
}

func (in *Inst) docObserve(o *RObs) {
	o.View, _ = vals.CanonJSON(in.Doc.ToJSON())
	o.Reads = in.readTree(in.Doc, o.View, nil)
}
