// Package replica drives real orda datatypes (client/pkg/orda) the way the OrdaReplica
// specification describes them: N replicas of one datatype, a harness-held server log,
// push / deliver in log order, transactions, malformed units, snapshot export/import.
package replica

import (
	"encoding/json"
	"fmt"
	"io"
	"sort"

	"github.com/orda-io/orda/client/pkg/errors"
	"github.com/orda-io/orda/client/pkg/iface"
	ordalog "github.com/orda-io/orda/client/pkg/log"
	"github.com/orda-io/orda/client/pkg/model"
	"github.com/orda-io/orda/client/pkg/orda"
	"github.com/sirupsen/logrus"
	"google.golang.org/protobuf/proto"

	"verifharness/spec"
	"verifharness/vals"
)

var quiet *ordalog.OrdaLog

func init() {
	quiet = ordalog.New()
	quiet.Logger.SetOutput(io.Discard)
	quiet.Logger.SetLevel(logrus.PanicLevel)
	ordalog.Logger.Logger.SetOutput(io.Discard)
	ordalog.Logger.Logger.SetLevel(logrus.PanicLevel)
}

// Quiet returns a logger that discards everything.
func Quiet() *ordalog.OrdaLog { return quiet }

// Inst is one real datatype instance.
type Inst struct {
	Kind    string
	Client  orda.Client
	DT      iface.Datatype
	Counter orda.Counter
	Map     orda.Map
	List    orda.List
	Doc     orda.Document
	handles map[string]orda.Document // doc: child documents seen at each path (kept after removal)
}

// Replica is a replica of the model: a real instance, how much of its buffer was pushed, and
// (after a Restore step) the shadow instance restored from its snapshot.
type Replica struct {
	*Inst
	ID     int // model client id, 1-based, in CUID order
	CUID   string
	Pushed int   // operations of the pack already pushed (the creation snapshot operation counts)
	Shadow *Inst // C10: instance restored from this replica's snapshot, fed the same continuation
}

// LogEntry is one entry of the harness-held server log.
type LogEntry struct {
	From int
	Op   *model.Operation
}

// World is the real counterpart of the OrdaReplica state.
type World struct {
	Kind   string
	Reps   []*Replica
	Log    []LogEntry
	Pulled []int
}

var kindType = map[string]model.TypeOfDatatype{
	"counter": model.TypeOfDatatype_COUNTER, "map": model.TypeOfDatatype_MAP,
	"list": model.TypeOfDatatype_LIST, "doc": model.TypeOfDatatype_DOCUMENT,
}

// NewInst creates a local-only client with one datatype of the kind.
func NewInst(kind, key string) *Inst {
	c := orda.NewClient(orda.NewLocalClientConfig("verif"), "r")
	if s, ok := c.(interface{ SetLogger(*ordalog.OrdaLog) }); ok {
		s.SetLogger(quiet)
	}
	in := &Inst{Kind: kind, Client: c}
	switch kind {
	case "counter":
		in.Counter = c.CreateCounter(key, nil)
		in.DT = in.Counter.(iface.Datatype)
	case "map":
		in.Map = c.CreateMap(key, nil)
		in.DT = in.Map.(iface.Datatype)
	case "list":
		in.List = c.CreateList(key, nil)
		in.DT = in.List.(iface.Datatype)
	case "doc":
		in.Doc = c.CreateDocument(key, nil)
		in.DT = in.Doc.(iface.Datatype)
	default:
		panic("unknown kind " + kind)
	}
	in.DT.SetLogger(quiet)
	return in
}

// NewWorld creates n replicas and numbers them by the rank of their CUIDs.
func NewWorld(kind string, n int) *World {
	w := &World{Kind: kind, Pulled: make([]int, n)}
	insts := make([]*Inst, n)
	for i := range insts {
		insts[i] = NewInst(kind, "k")
	}
	sort.Slice(insts, func(i, j int) bool { return insts[i].DT.GetCUID() < insts[j].DT.GetCUID() })
	for i, in := range insts {
		w.Reps = append(w.Reps, &Replica{Inst: in, ID: i + 1, CUID: in.DT.GetCUID(), Pushed: 1})
	}
	return w
}

// Result is what one call on a real object gave back.
type Result struct {
	Ret   interface{} // canonical form of the returned value (nil if none)
	Err   bool
	Panic string
}

func guard(res *Result) {
	if r := recover(); r != nil {
		res.Panic = fmt.Sprint(r)
	}
}

func isNilErr(e errors.OrdaError) bool { return e == nil }

func tag(raw json.RawMessage) int {
	var t int
	if err := json.Unmarshal(raw, &t); err != nil {
		panic(fmt.Sprintf("bad tag %s", raw))
	}
	return t
}

func goVals(raws []json.RawMessage) []interface{} {
	out := make([]interface{}, len(raws))
	for i, r := range raws {
		out[i] = vals.Go(tag(r))
	}
	return out
}

// NullValues are the Go values that are null for JSON: nil itself and nil pointers.
func NullValues() []interface{} {
	type st struct{ A int }
	return []interface{}{nil, (*int)(nil), (*string)(nil), (*float64)(nil), (*st)(nil)}
}

// CounterDelta scales a model delta (4-bit two's complement) to int32.
func CounterDelta(d int) int32 { return int32(uint32(int32(d)) << 28) }

// CounterModel maps an int32 counter value back to the model's 4-bit range; ok is false if the
// value is not a multiple of 2^28 (the model cannot explain it).
func CounterModel(v int32) (int, bool) {
	if uint32(v)&((1<<28)-1) != 0 {
		return 0, false
	}
	return int(v >> 28), true
}

// ListAPI / MapAPI / CounterAPI: the interfaces shared by a datatype and its in-transaction clone.
type listAPI = orda.ListInTx
type mapAPI = orda.MapInTx
type counterAPI = orda.CounterInTx

// callOn performs one call of the specification on the given API object (the datatype itself or
// the clone handed to a transaction body).
func (in *Inst) callOn(api interface{}, c *spec.Call) (res Result) {
	defer guard(&res)
	switch in.Kind {
	case "counter":
		a := api.(counterAPI)
		v, err := a.IncreaseBy(CounterDelta(c.D))
		res.Err = !isNilErr(err)
		if m, ok := CounterModel(v); ok {
			res.Ret = float64(m)
		} else {
			res.Ret = fmt.Sprintf("raw:%d", v)
		}
	case "map":
		a := api.(mapAPI)
		switch c.Op {
		case "put":
			if t := tag(c.V); t == vals.Nil {
				// a null value: nil itself and nil pointers of several types - every one must be refused
				res.Err = true
				for _, nv := range NullValues() {
					_, err := a.Put(c.K, nv)
					res.Err = res.Err && !isNilErr(err)
				}
				return
			}
			old, err := a.Put(c.K, vals.Go(tag(c.V)))
			res.Err = !isNilErr(err)
			res.Ret, _ = vals.CanonJSON(old)
		case "remove":
			old, err := a.Remove(c.K)
			res.Err = !isNilErr(err)
			res.Ret, _ = vals.CanonJSON(old)
		default:
			panic("map op " + c.Op)
		}
	case "list":
		a := api.(listAPI)
		switch c.Op {
		case "insert":
			var err errors.OrdaError
			vs := goVals(c.Vals)
			if len(vs) == 1 {
				_, err = a.Insert(c.Pos, vs[0])
			} else {
				_, err = a.InsertMany(c.Pos, vs...)
			}
			res.Err = !isNilErr(err)
		case "delete":
			if c.N == 1 && c.Pos%2 == 0 {
				old, err := a.Delete(c.Pos)
				res.Err = !isNilErr(err)
				if !res.Err {
					res.Ret, _ = vals.CanonJSON([]interface{}{old})
				}
			} else {
				old, err := a.DeleteMany(c.Pos, c.N)
				res.Err = !isNilErr(err)
				if !res.Err {
					res.Ret, _ = vals.CanonJSON(old)
				}
			}
		case "update":
			old, err := a.Update(c.Pos, goVals(c.Vals)...)
			res.Err = !isNilErr(err)
			if !res.Err {
				res.Ret, _ = vals.CanonJSON(old)
			}
		case "get":
			_, err := a.Get(c.Pos)
			res.Err = !isNilErr(err)
			if res.Err {
				_, err2 := a.GetMany(c.Pos, 1)
				res.Err = !isNilErr(err2)
			}
		default:
			panic("list op " + c.Op)
		}
	case "doc":
		res = in.docCall(api, c)
	}
	return
}

func (in *Inst) api() interface{} {
	switch in.Kind {
	case "counter":
		return in.Counter
	case "map":
		return in.Map
	case "list":
		return in.List
	}
	return in.Doc
}

// Call performs one call on the instance.
func (in *Inst) Call(c *spec.Call) Result { return in.callOn(in.api(), c) }

// Tx runs a user transaction whose body performs the given calls and then commits or aborts.
func (in *Inst) Tx(calls []spec.Call, commit bool) (rets []Result, txErr bool, pan string) {
	defer func() {
		if r := recover(); r != nil {
			pan = fmt.Sprint(r)
		}
	}()
	body := func(api interface{}) error {
		for i := range calls {
			rets = append(rets, in.callOn(api, &calls[i]))
		}
		if !commit {
			return fmt.Errorf("abort")
		}
		return nil
	}
	var err error
	switch in.Kind {
	case "counter":
		err = in.Counter.Transaction("tx", func(c orda.CounterInTx) error { return body(c) })
	case "map":
		err = in.Map.Transaction("tx", func(m orda.MapInTx) error { return body(m) })
	case "list":
		err = in.List.Transaction("tx", func(l orda.ListInTx) error { return body(l) })
	case "doc":
		err = in.Doc.Transaction("tx", func(d orda.DocumentInTx) error { return body(d) })
	}
	return rets, err != nil, ""
}

// OpID is the identifying part of a real operation.
type OpID struct {
	L, Seq uint64
	CUID   string
	Type   string
}

// RObs is what is readable from one real instance.
type RObs struct {
	View    interface{} // canonical JSON view
	Size    int
	Reads   interface{} // element reads through the typed API
	Pending []OpID      // operations awaiting push (everything in the pack)
	NextL   uint64      // current operation id (lamport, seq): the next call gets +1
	NextS   uint64
	Panic   string
}

// Observe reads everything the properties speak about from the instance.
func (in *Inst) Observe() (o RObs) {
	defer func() {
		if r := recover(); r != nil {
			o.Panic = fmt.Sprint(r)
		}
	}()
	switch in.Kind {
	case "counter":
		v := in.Counter.Get()
		if m, ok := CounterModel(v); ok {
			o.View = float64(m)
		} else {
			o.View = fmt.Sprintf("raw:%d", v)
		}
		j, _ := vals.CanonJSON(in.Counter.ToJSON())
		o.Reads = j
	case "map":
		o.View, _ = vals.CanonJSON(in.Map.ToJSON())
		o.Size = in.Map.Size()
		reads := map[string]interface{}{}
		for _, k := range []string{"a", "b", "c"} {
			reads[k], _ = vals.CanonJSON(in.Map.Get(k))
		}
		o.Reads = reads
	case "list":
		j, _ := vals.CanonJSON(in.List.ToJSON())
		if m, ok := j.(map[string]interface{}); ok {
			o.View = m["List"]
		} else {
			o.View = j
		}
		o.Size = in.List.Size()
		var reads []interface{}
		if o.Size > 0 {
			many, err := in.List.GetMany(0, o.Size)
			if err != nil {
				reads = append(reads, "GetMany error")
			} else {
				c, _ := vals.CanonJSON(many)
				reads = append(reads, c)
			}
			for i := 0; i < o.Size; i++ {
				v, err := in.List.Get(i)
				if err != nil {
					reads = append(reads, "Get error")
				} else {
					c, _ := vals.CanonJSON(v)
					reads = append(reads, c)
				}
			}
		}
		o.Reads = reads
	case "doc":
		in.docObserve(&o)
	}
	for _, op := range in.DT.CreatePushPullPack().Operations {
		o.Pending = append(o.Pending, OpID{L: op.ID.Lamport, Seq: op.ID.Seq, CUID: op.ID.CUID, Type: op.OpType.String()})
	}
	if g, ok := in.DT.(interface{ GetOpID() *model.OperationID }); ok {
		id := g.GetOpID()
		o.NextL, o.NextS = id.Lamport, id.Seq
	}
	return
}

func cloneOp(op *model.Operation) *model.Operation {
	b, err := proto.Marshal(op)
	if err != nil {
		panic(err)
	}
	out := &model.Operation{}
	if err := proto.Unmarshal(b, out); err != nil {
		panic(err)
	}
	return out
}

// Push moves the replica's unpushed operations to the log (through protobuf); returns how many.
func (w *World) Push(r int) int {
	rep := w.Reps[r-1]
	ops := rep.DT.CreatePushPullPack().Operations
	n := 0
	for _, op := range ops[rep.Pushed:] {
		w.Log = append(w.Log, LogEntry{From: r, Op: cloneOp(op)})
		n++
	}
	rep.Pushed = len(ops)
	return n
}

func exact(ops []*model.Operation) []*model.Operation {
	out := make([]*model.Operation, len(ops))
	for i, o := range ops {
		out[i] = cloneOp(o)
	}
	return out
}

func receive(in *Inst, ops []*model.Operation) (errd bool, pan string) {
	defer func() {
		if r := recover(); r != nil {
			pan = fmt.Sprint(r)
		}
	}()
	_, err := in.DT.ReceiveRemoteModelOperations(ops, false)
	return err != nil, ""
}

// Deliver hands the next n log entries to replica r (skipping them if they are its own).
func (w *World) Deliver(r, n int) (own bool, errd bool, pan string) {
	i := w.Pulled[r-1]
	if i+n > len(w.Log) {
		return false, true, fmt.Sprintf("harness: deliver beyond log (%d+%d > %d)", i, n, len(w.Log))
	}
	own = w.Log[i].From == r
	unit := make([]*model.Operation, 0, n)
	for _, e := range w.Log[i : i+n] {
		unit = append(unit, e.Op)
	}
	w.Pulled[r-1] += n
	if own {
		return
	}
	rep := w.Reps[r-1]
	errd, pan = receive(rep.Inst, exact(unit))
	if rep.Shadow != nil {
		receive(rep.Shadow, exact(unit))
	}
	return
}

// DeliverBad hands the first keep operations of the next unit to replica r, as the last (incomplete)
// part of a pull; the log position does not move.
func (w *World) DeliverBad(r, keep int) (errd bool, pan string) {
	i := w.Pulled[r-1]
	unit := make([]*model.Operation, 0, keep)
	for _, e := range w.Log[i : i+keep] {
		unit = append(unit, e.Op)
	}
	rep := w.Reps[r-1]
	errd, pan = receive(rep.Inst, exact(unit))
	if rep.Shadow != nil {
		receive(rep.Shadow, exact(unit))
	}
	return
}

// Restore exports meta and snapshot of replica r, imports them into a fresh instance (the
// procedure of server/snapshot.Manager.GetLatestDatatype plus ResetTransaction), re-exports, and
// keeps the fresh instance as the replica's shadow. It returns the two snapshots in canonical form.
func (w *World) Restore(r int) (first, second interface{}, err error) {
	rep := w.Reps[r-1]
	defer func() {
		if rec := recover(); rec != nil {
			err = fmt.Errorf("panic: %v", rec)
		}
	}()
	meta, snap, oerr := rep.DT.GetMetaAndSnapshot()
	if oerr != nil {
		return nil, nil, oerr
	}
	fresh := NewInst(w.Kind, "k")
	if oerr := fresh.DT.SetMetaAndSnapshot(meta, snap); oerr != nil {
		return nil, nil, oerr
	}
	fresh.DT.ResetWired()
	// ResetWired clears the sequence number together with the buffer (its callers start a new
	// buffer at the checkpoint); the continuation of the original keeps numbering, so the
	// exported operation id is put back.
	m := model.DatatypeMeta{}
	if e := json.Unmarshal(meta, &m); e == nil {
		if s, ok := fresh.DT.(interface{ SetOpID(*model.OperationID) }); ok {
			s.SetOpID(m.OpID)
		}
	}
	if e := json.Unmarshal(meta, &m); e == nil {
		fresh.DT.SetCheckPoint(0, m.OpID.Seq)
	}
	if rt, ok := fresh.DT.(interface{ ResetTransaction() errors.OrdaError }); ok {
		if oerr := rt.ResetTransaction(); oerr != nil {
			return nil, nil, oerr
		}
	}
	_, snap2, oerr := fresh.DT.GetMetaAndSnapshot()
	if oerr != nil {
		return nil, nil, oerr
	}
	rep.Shadow = fresh
	first = CanonSnapshot(w.Kind, snap)
	second = CanonSnapshot(w.Kind, snap2)
	return
}

// CanonSnapshot decodes a snapshot and orders its unordered parts (the document node table).
func CanonSnapshot(kind string, snap []byte) interface{} {
	var v interface{}
	if err := json.Unmarshal(snap, &v); err != nil {
		return string(snap)
	}
	if kind == "doc" {
		if m, ok := v.(map[string]interface{}); ok {
			if nm, ok := m["nm"].([]interface{}); ok {
				sort.Slice(nm, func(i, j int) bool { return vals.Str(nm[i]) < vals.Str(nm[j]) })
			}
		}
	}
	return v
}
