// Package rt runs real orda clients in REALTIME mode against the real server behind real gRPC on a
// loopback port, with the two points an outside scheduler can control made explicit:
//
//   - Proxy: the registered gRPC service. In gated mode a push-pull request is parked when it arrives,
//     handed to the real service.OrdaService when the harness says "serve", and its response is parked
//     again until the harness says "respond".
//   - the fake MQTT broker in gated mode holds every notification per subscriber until released.
//
// Everything else (the client's semaphore, its notification loop, the goroutines the library starts) runs
// freely. The same world is used ungated by the free-running drivers.
package rt

import (
	gocontext "context"
	"fmt"
	"net"
	"strings"
	"sync"
	"time"

	"github.com/orda-io/orda/client/pkg/errors"
	"github.com/orda-io/orda/client/pkg/iface"
	"github.com/orda-io/orda/client/pkg/model"
	"github.com/orda-io/orda/client/pkg/orda"
	"google.golang.org/grpc"

	"verifharness/stack"
)

// PReq is one push-pull request seen by the proxy.
type PReq struct {
	Seq     int // arrival order
	In      *model.PushPullMessage
	Out     *model.PushPullMessage
	Err     error
	Arrived time.Time
	onceS   sync.Once
	onceR   sync.Once
	serve   chan struct{}
	served  chan struct{}
	respond chan struct{}
	done    chan struct{}
}

// CUID, Key, cps, cpc, nops of the (single) pack of the request.
func (r *PReq) Info() (cuid, key string, cps, cpc uint64, nops int, npacks int) {
	cuid = r.In.Cuid
	npacks = len(r.In.PushPullPacks)
	if npacks > 0 {
		p := r.In.PushPullPacks[0]
		key = p.Key
		if p.CheckPoint != nil {
			cps, cpc = p.CheckPoint.Sseq, p.CheckPoint.Cseq
		}
		nops = len(p.Operations)
	}
	return
}

// RespInfo returns checkpoint and number of operations of the response pack.
func (r *PReq) RespInfo() (cps, cpc uint64, nops int, isErr bool) {
	if r.Out == nil || len(r.Out.PushPullPacks) == 0 {
		return 0, 0, 0, true
	}
	p := r.Out.PushPullPacks[0]
	if p.CheckPoint != nil {
		cps, cpc = p.CheckPoint.Sseq, p.CheckPoint.Cseq
	}
	return cps, cpc, len(p.Operations), p.GetPushPullPackOption().HasErrorBit()
}

// Proxy is the gRPC service the clients talk to.
type Proxy struct {
	model.UnimplementedOrdaServiceServer
	st    *stack.Stack
	mu    sync.Mutex
	gated bool
	all   []*PReq
	// Observer is called (under no lock) for every request and response in ungated mode too
	OnCall func(r *PReq)
	OnRet  func(r *PReq)
}

func (p *Proxy) SetGated(on bool) {
	p.mu.Lock()
	p.gated = on
	p.mu.Unlock()
}

// ProcessPushPull parks the request (gated mode) before and after the real handler.
func (p *Proxy) ProcessPushPull(ctx gocontext.Context, in *model.PushPullMessage) (*model.PushPullMessage, error) {
	p.mu.Lock()
	gated := p.gated
	r := &PReq{Seq: len(p.all) + 1, In: in, Arrived: time.Now(), serve: make(chan struct{}), served: make(chan struct{}),
		respond: make(chan struct{}), done: make(chan struct{})}
	p.all = append(p.all, r)
	p.mu.Unlock()
	if p.OnCall != nil {
		p.OnCall(r)
	}
	if gated {
		select {
		case <-r.serve:
		case <-ctx.Done():
			close(r.done)
			return nil, ctx.Err()
		}
	}
	r.Out, r.Err = p.st.Svc.ProcessPushPull(ctx, in)
	close(r.served)
	if gated {
		select {
		case <-r.respond:
		case <-ctx.Done():
		}
	}
	if p.OnRet != nil {
		p.OnRet(r)
	}
	close(r.done)
	return r.Out, r.Err
}

func (p *Proxy) ProcessClient(ctx gocontext.Context, in *model.ClientMessage) (*model.ClientMessage, error) {
	return p.st.Svc.ProcessClient(ctx, in)
}
func (p *Proxy) PatchDocument(ctx gocontext.Context, in *model.PatchMessage) (*model.PatchMessage, error) {
	return p.st.Svc.PatchDocument(ctx, in)
}
func (p *Proxy) CreateCollection(ctx gocontext.Context, in *model.CollectionMessage) (*model.CollectionMessage, error) {
	return p.st.Svc.CreateCollection(ctx, in)
}
func (p *Proxy) ResetCollection(ctx gocontext.Context, in *model.CollectionMessage) (*model.CollectionMessage, error) {
	return p.st.Svc.ResetCollection(ctx, in)
}
func (p *Proxy) TestEncodingOperation(ctx gocontext.Context, in *model.EncodingMessage) (*model.EncodingMessage, error) {
	return p.st.Svc.TestEncodingOperation(ctx, in)
}

// Requests returns all requests seen since the last Forget, in arrival order.
func (p *Proxy) Requests() []*PReq {
	p.mu.Lock()
	defer p.mu.Unlock()
	return append([]*PReq{}, p.all...)
}

// Forget drops the record of requests seen so far.
func (p *Proxy) Forget() {
	p.mu.Lock()
	p.all = nil
	p.mu.Unlock()
}

// Serve lets the real handler run for a parked request and waits until it has produced its answer.
func (r *PReq) Serve(d time.Duration) bool {
	r.onceS.Do(func() { close(r.serve) })
	select {
	case <-r.served:
		return true
	case <-time.After(d):
		return false
	}
}

// Respond lets the answer through to the client.
func (r *PReq) Respond() {
	r.onceR.Do(func() { close(r.respond) })
}

func (r *PReq) Served() bool {
	select {
	case <-r.served:
		return true
	default:
		return false
	}
}

func (r *PReq) Done() bool {
	select {
	case <-r.done:
		return true
	default:
		return false
	}
}

// Server is the stack plus the gRPC front.
type Server struct {
	St    *stack.Stack
	Proxy *Proxy
	rpc   *grpc.Server
	Addr  string
}

// NewServer starts fake store, broker, real service and the gRPC front on a loopback port.
func NewServer() (*Server, error) {
	st, err := stack.New()
	if err != nil {
		return nil, err
	}
	lis, err := net.Listen("tcp", "127.0.0.1:0")
	if err != nil {
		return nil, err
	}
	s := &Server{St: st, Proxy: &Proxy{st: st}, rpc: grpc.NewServer(), Addr: lis.Addr().String()}
	model.RegisterOrdaServiceServer(s.rpc, s.Proxy)
	go func() { _ = s.rpc.Serve(lis) }()
	return s, nil
}

func (s *Server) Close() {
	s.rpc.Stop()
	s.St.Close()
}

// Events are the handler calls of one datatype.
type Events struct {
	mu     sync.Mutex
	States []string
	Errors []string
	Remote int
}

func (e *Events) Get() (states, errs []string, remote int) {
	e.mu.Lock()
	defer e.mu.Unlock()
	return append([]string{}, e.States...), append([]string{}, e.Errors...), e.Remote
}

// Client is a real orda client in REALTIME mode.
type Client struct {
	C    orda.Client
	CUID string
	DTs  map[string]*DT
}

// DT is one counter of a realtime client.
type DT struct {
	Key     string
	Counter orda.Counter
	W       iface.Datatype
	Ev      *Events
}

// NewClient connects a realtime client.
func (s *Server) NewClient(col, alias string, sync model.SyncType) (*Client, error) {
	conf := &orda.ClientConfig{ServerAddr: s.Addr, NotificationAddr: s.St.BR.Addr(), CollectionName: col, SyncType: sync}
	c := orda.NewClient(conf, alias)
	if err := c.Connect(); err != nil {
		return nil, fmt.Errorf("connect: %v", err)
	}
	return &Client{C: c, DTs: map[string]*DT{}}, nil
}

// OpenCounter opens a counter ("dueCreate", "dueSub", "dueSubCreate"); in realtime mode the library syncs by itself.
func (c *Client) OpenCounter(key, mode string) *DT {
	ev := &Events{}
	h := orda.NewHandlers(
		func(dt orda.Datatype, old, new model.StateOfDatatype) {
			ev.mu.Lock()
			ev.States = append(ev.States, old.String()+"->"+new.String())
			ev.mu.Unlock()
		},
		func(dt orda.Datatype, opList []interface{}) {
			ev.mu.Lock()
			ev.Remote += len(opList)
			ev.mu.Unlock()
		},
		func(dt orda.Datatype, errs ...errors.OrdaError) {
			ev.mu.Lock()
			for _, e := range errs {
				ev.Errors = append(ev.Errors, e.Error())
			}
			ev.mu.Unlock()
		})
	d := &DT{Key: key, Ev: ev}
	switch mode {
	case "dueCreate":
		d.Counter = c.C.CreateCounter(key, h)
	case "dueSub":
		d.Counter = c.C.SubscribeCounter(key, h)
	default:
		d.Counter = c.C.SubscribeOrCreateCounter(key, h)
	}
	d.W = d.Counter.(iface.Datatype)
	c.DTs[key] = d
	if c.CUID == "" {
		c.CUID = d.W.GetCUID()
	}
	return d
}

// Subscribed reports whether the state-change handler has reported the transition to SUBSCRIBED. (The state
// field itself changes before the pulled operations - the creator's snapshot - are applied; the handler is
// called after them, and that is what a user of the library waits for.)
func (d *DT) Subscribed() bool {
	states, _, _ := d.Ev.Get()
	for _, s := range states {
		if strings.HasSuffix(s, "->"+model.StateOfDatatype_SUBSCRIBED.String()) {
			return d.W.GetState() == model.StateOfDatatype_SUBSCRIBED
		}
	}
	return false
}

// CP returns the datatype's checkpoint (sseq, acknowledged cseq) and the number of operations waiting for push.
func (d *DT) CP() (sseq, cseq uint64, pending int) {
	p := d.W.CreatePushPullPack()
	n := len(p.Operations)
	return p.CheckPoint.Sseq, p.CheckPoint.Cseq - uint64(n), n
}

// WaitFor polls cond until it holds or the deadline passes.
func WaitFor(d time.Duration, cond func() bool) bool {
	end := time.Now().Add(d)
	for {
		if cond() {
			return true
		}
		if time.Now().After(end) {
			return false
		}
		time.Sleep(200 * time.Microsecond)
	}
}
