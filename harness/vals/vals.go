// Package vals maps the specification's value tags to concrete Go values and back.
//
// The specifications use small integer tags for primitive values. The harness concretises a tag
// through a fixed table into Go values of many kinds (every integer width, floats, strings,
// pointers), so that the conversion paths of the library are exercised, and compares values in a
// canonical JSON form (numbers as float64, strings as strings).
package vals

import (
	"encoding/json"
	"fmt"
)

// Nil is the specification's tombstone / absent value.
const Nil = -1

// Go returns the Go value handed to the public API for tag t.
func Go(t int) interface{} {
	switch t % 3 {
	case 0:
		s := fmt.Sprintf("s%d", t)
		if t%2 == 0 {
			return &s
		}
		return s
	case 1:
		switch (t / 3) % 9 {
		case 0:
			return int(t)
		case 1:
			return int8(t % 128)
		case 2:
			return int16(t)
		case 3:
			return int32(t)
		case 4:
			return int64(t)
		case 5:
			return uint(t)
		case 6:
			return uint16(t)
		case 7:
			v := uint32(t)
			return &v
		default:
			return uint64(t)
		}
	default:
		if t%2 == 0 {
			return float32(t) + 0.5
		}
		return float64(t) + 0.5
	}
}

// Canon returns the canonical (JSON-decoded) form of tag t: what a correct replica must show.
func Canon(t int) interface{} {
	if t == Nil {
		return nil
	}
	switch t % 3 {
	case 0:
		return fmt.Sprintf("s%d", t)
	case 1:
		if (t/3)%9 == 1 {
			return float64(int8(t % 128))
		}
		return float64(t)
	default:
		return float64(t) + 0.5
	}
}

// CanonJSON round-trips any value through encoding/json, so that numbers become float64 and
// typed containers become []interface{} / map[string]interface{}.
func CanonJSON(v interface{}) (interface{}, error) {
	b, err := json.Marshal(v)
	if err != nil {
		return nil, err
	}
	var out interface{}
	if err := json.Unmarshal(b, &out); err != nil {
		return nil, err
	}
	return out, nil
}

// Str renders a canonical value compactly (encoding/json sorts map keys).
func Str(v interface{}) string {
	b, _ := json.Marshal(v)
	return string(b)
}
