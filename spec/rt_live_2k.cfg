\* generated by genrt.py - edit there
SPECIFICATION FairSpec
CONSTANTS
 Clients = {1, 2}
 Keys = {1, 2}
 MaxLocal = 1
 MaxReqs = 40
 Queued = TRUE
 Hist = FALSE
INVARIANT LogNoRepeats
INVARIANT PerClientOrder
INVARIANT ServerCpExact
INVARIANT AppliedExactlyOnce
INVARIANT AppliedInLogOrder
INVARIANT ClientCpWithinLog
INVARIANT SemaHeldByRequest
INVARIANT NotifiedEnds
INVARIANT IdleIsSettled
INVARIANT SettledAgree
PROPERTY Converges
CHECK_DEADLOCK FALSE
