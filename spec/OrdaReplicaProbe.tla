---- MODULE OrdaReplicaProbe ----
(***************************************************************************)
(* OrdaReplica (documents) plus one PATCH PROBE at the end of a behaviour  *)
(* (C19): from any reachable state the replicas are first brought to       *)
(* quiescence, then one replica patches its document to a target JSON and  *)
(* then to a second one.  The edit script comes from a library and is not  *)
(* modelled; what C19 demands of any script is evaluated by the replay:    *)
(* the patched replica shows exactly the target, the emitted operations    *)
(* form one unit, and after delivery every replica shows the target.       *)
(***************************************************************************)
EXTENDS OrdaReplica
CONSTANTS PatchTargets     \* names of target documents (the harness holds the table)
VARIABLE probed
pvars == <<vars, probed>>
PatchProbe(r) == /\ ~probed /\ probed' = TRUE
                 /\ \E t1 \in PatchTargets :      \* the second target follows the first in the harness's table
                      Record([name |-> "patchProbe", r |-> r, t1 |-> t1])
                 /\ UNCHANGED <<st, outbox, log, pulled, plain, nres, nbad>>
PNext == \/ (~probed /\ Next /\ UNCHANGED probed)
         \/ \E r \in Replicas : PatchProbe(r)
PInit == Init /\ probed = FALSE
PSpec == PInit /\ [][PNext]_pvars
PStateView == <<StateView, probed>>
====
