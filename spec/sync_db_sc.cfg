\* generated by gensync.py - edit there
SPECIFICATION FSpec
CONSTANTS
 Clients = {1, 2}
 Creators = {}
 Subscribers = {}
 OtherType = {}
 MaxPre = 0
 MaxOps = 1
 MaxSends = 4
 MaxServes = 1
 MaxApplies = 1
 Faults = FALSE
 KeepHist = TRUE
 MaxFaults = 1
INVARIANT LogNoRepeats
INVARIANT LogEndRecorded
INVARIANT PerClientOrder
INVARIANT CpWithinLog
INVARIANT AppliedExactlyOnce
INVARIANT AppliedInLogOrder
INVARIANT ClientCpWithinLog
INVARIANT QuiescentAgreement
INVARIANT OneDatatype
PROPERTY CpMonotone
VIEW FStateView
CHECK_DEADLOCK FALSE
