\* generated by gencfg.py - edit there
SPECIFICATION Spec
CONSTANTS
 Kind = "doc"
 Replicas = {1, 2, 3}
 MaxLocal = 1
 MoreLocal = {1, 2}
 MaxBatch = 1
 Keys = {"a"}
 Deltas = {1}
 MaxTx = 0
 MaxBad = 0
 MaxRestore = 0
 MaxBadUnit = 0
 RePut = TRUE
 DocNKeys = 1
 DocShapes = {"p"}
 DocMaxBatch = 1
 SimMode = FALSE
INVARIANT Convergence
INVARIANT RefOutcome
INVARIANT NoDupIds
INVARIANT PresenceExact
INVARIANT SameOrder
INVARIANT SeqGapless
INVARIANT CausalTs
INVARIANT IdsUnique
INVARIANT UnitsWellFormed
INVARIANT PlainRefinement
INVARIANT DocObjRule
PROPERTY TxAbortIsNoop
PROPERTY InvalidIsNoop
VIEW StateView
ACTION_CONSTRAINT FinalEdgeDump
CHECK_DEADLOCK FALSE
