\* generated by gensync.py - edit there
SPECIFICATION FSpec
CONSTANTS
 Clients = {1, 2, 3}
 Creators = {1}
 Subscribers = {2}
 OtherType = {}
 MaxPre = 0
 MaxOps = 3
 MaxSends = 12
 MaxServes = 2
 MaxApplies = 1
 Faults = FALSE
 KeepHist = TRUE
 MaxFaults = 3
INVARIANT LogNoRepeats
INVARIANT LogEndRecorded
INVARIANT PerClientOrder
INVARIANT CpWithinLog
INVARIANT AppliedExactlyOnce
INVARIANT AppliedInLogOrder
INVARIANT ClientCpWithinLog
INVARIANT QuiescentAgreement
INVARIANT OneDatatype
INVARIANT StepDump
CHECK_DEADLOCK FALSE
