\* generated by gencfg.py - edit there
SPECIFICATION Spec
CONSTANTS
 Kind = "doc"
 Replicas = {1, 2, 3}
 MaxLocal = 6
 MoreLocal = {}
 MaxBatch = 1
 Keys = {"a"}
 Deltas = {1}
 MaxTx = 2
 MaxBad = 1
 MaxRestore = 2
 MaxBadUnit = 0
 RePut = TRUE
 DocNKeys = 2
 DocShapes = {"p", "o0", "o1", "o2", "a0", "a2", "oa", "ao", "o2a"}
 DocMaxBatch = 2
 SimMode = TRUE
INVARIANT Convergence
INVARIANT RefOutcome
INVARIANT NoDupIds
INVARIANT PresenceExact
INVARIANT SameOrder
INVARIANT SeqGapless
INVARIANT CausalTs
INVARIANT IdsUnique
INVARIANT UnitsWellFormed
INVARIANT PlainRefinement
INVARIANT DocObjRule
INVARIANT StepDump
CHECK_DEADLOCK FALSE
