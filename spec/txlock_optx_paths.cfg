\* generated by gentxlock.py - edit there
SPECIFICATION Spec
CONSTANTS
 KindOf = 0
 Procs = {1, 2}
 OpProcs = {1}
 TxProcs = {2}
 RemoteProcs = {}
 Calls = 1
 TxLen = 2
 Guarded = TRUE
 FailProcs = {}
INVARIANT NoCrash
INVARIANT MutualExclusion
INVARIANT NoLostUnlock
INVARIANT NoLostUpdate
INVARIANT QueuedOnce
INVARIANT TxContiguous
ACTION_CONSTRAINT FinalDump
CHECK_DEADLOCK FALSE
