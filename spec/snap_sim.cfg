\* generated by gensnap.py - edit there
SPECIFICATION Spec
CONSTANTS
 Clients = {1, 2, 3}
 MaxLocal = 4
 MaxSyncs = 10
 MaxPatches = 0
 MaxUpdaters = 2
INVARIANT SnapshotWithinLog
INVARIANT UserDocIsSnapshot
INVARIANT OneUpdaterAtATime
INVARIANT PubsMonotone
INVARIANT PubsWithinLog
INVARIANT StepDump
CHECK_DEADLOCK FALSE
