\* generated by gensync.py - edit there
SPECIFICATION FSpec
CONSTANTS
 Clients = {1, 2}
 Creators = {1}
 Subscribers = {2}
 OtherType = {}
 MaxPre = 0
 MaxOps = 1
 MaxSends = 3
 MaxServes = 2
 MaxApplies = 1
 Faults = FALSE
 KeepHist = TRUE
 MaxFaults = 2
INVARIANT LogNoRepeats
INVARIANT LogEndRecorded
INVARIANT PerClientOrder
INVARIANT CpWithinLog
INVARIANT AppliedExactlyOnce
INVARIANT AppliedInLogOrder
INVARIANT ClientCpWithinLog
INVARIANT QuiescentAgreement
INVARIANT OneDatatype
PROPERTY CpMonotone
VIEW FStateView
CHECK_DEADLOCK FALSE
