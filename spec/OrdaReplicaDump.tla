---- MODULE OrdaReplicaDump ----
(* Behaviour export for the S->I replay: one JSON line per generated transition (exhaustive mode,
   via ACTION_CONSTRAINT) or per visited state (simulation mode, via an always-true invariant). *)
EXTENDS OrdaReplica, Json, TLCExt
Ident(o) == [ts |-> o.ts, seq |-> o.seq, type |-> o.type]
Mine(r) == LET mine == [i \in 1..Len(OpsOf(r)) |-> OpsOf(r)[i].op] \o outbox[r] IN [i \in 1..Len(mine) |-> Ident(mine[i])]
Obs == [views |-> [r \in Replicas |-> KView(st[r].snap)],
        sizes |-> [r \in Replicas |-> KSize(st[r].snap)],
        clock |-> [r \in Replicas |-> st[r].l],
        seq   |-> [r \in Replicas |-> st[r].s],
        nout  |-> [r \in Replicas |-> Len(outbox[r])],
        nlog  |-> Len(log),
        pulled |-> pulled,
        plain |-> KPlainView(plain),
        same  |-> [a \in Replicas |-> [b \in Replicas |-> SameSet(a, b)]],
        pend  |-> [r \in Replicas |-> Mine(r)]]
\* exhaustive mode: every generated transition, with one path to its source state
EdgeDump == PrintT("EDGE " \o ToJson([hist |-> hist', obs |-> Obs']))
\* complete histories only: transitions into a state in which every operation issued has been pushed and delivered to
\* everybody. The log is part of the state, so there is one exported path per (set of operations with their timestamps,
\* log order): what the outcome of conflicting operations may depend on. Used for configurations whose full edge dump
\* would be gigabytes (three replicas contending for one key).
AllDelivered == \A r \in Replicas : outbox[r] = <<>> /\ pulled[r] = Len(log)
FinalEdgeDump == (AllDelivered' /\ Len(log') >= 3) => PrintT("EDGE " \o ToJson([hist |-> hist', obs |-> Obs']))
\* simulation mode: every state of every walk
\* TLC evaluates invariants on every candidate successor before it picks one, so a level can show several
\* lines; pact (the parent's action) tells the harness which candidate of the previous level was taken.
StepDump == PrintT("STEP " \o ToJson([t |-> TLCGet("stats").traces, l |-> TLCGet("level"), act |-> act,
                                      pact |-> IF Len(hist) >= 2 THEN hist[Len(hist) - 1] ELSE [name |-> "init"], obs |-> Obs]))
====
