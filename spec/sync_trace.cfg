\* trace validation of recorded parallel executions (see OrdaSyncTrace.tla)
SPECIFICATION TraceSpec
CONSTANTS
 Clients = {1, 2, 3, 4}
 Creators = {1}
 Subscribers = {2, 3, 4}
 OtherType = {}
 MaxPre = 0
 MaxOps = 50
 MaxSends = 100000
 MaxServes = 1
 MaxApplies = 1
 Faults = TRUE
INVARIANT NotAccepted
CONSTRAINT Progress
INVARIANT LogNoRepeats
INVARIANT LogEndRecorded
INVARIANT PerClientOrder
INVARIANT CpWithinLog
VIEW TraceView
CHECK_DEADLOCK FALSE
