---- MODULE OrdaSyncFaultProbe ----
(***************************************************************************)
(* OrdaSyncFault plus one PROBE at the end of a behaviour (C17 after       *)
(* storage faults): a handler run that was cut in half by a database fault *)
(* may have left operations stored for which no datatype document (or no   *)
(* recorded end) exists. Resetting the collection afterwards must still    *)
(* remove exactly that collection's data - also such leftovers - and       *)
(* nothing of another collection.  As in OrdaSyncProbe the probe changes   *)
(* nothing in the model; the replay evaluates the outcome on the real      *)
(* store.                                                                  *)
(***************************************************************************)
EXTENDS OrdaSyncFault
CONSTANTS Mutations
VARIABLE probed
fpvars == <<fvars, probed>>
FProbe(c) == /\ ~probed /\ cl[c].state # "closed" /\ nfault > 0
             /\ probed' = TRUE
             /\ \E m \in Mutations : Record([name |-> "probe", c |-> c, m |-> m])
             /\ UNCHANGED <<cl, dt, oplog, reqs, resps, nsend, nserve, napply, nfault, lastf>>
FPNext == \/ (~probed /\ FNext /\ UNCHANGED probed)
          \/ \E c \in Clients : FProbe(c)
FPInit == FInit /\ probed = FALSE
FPSpec == FPInit /\ [][FPNext]_fpvars
FPStateView == <<FStateView, probed>>
====
