---- MODULE OrdaIds ----
(***************************************************************************)
(* Identifiers of orda-io/orda: operation ids, timestamps, identifier keys. *)
(*                                                                         *)
(* client/pkg/model/operation_id.go, timestamp.go                          *)
(*   OperationID = (era, lamport, cuid, seq);  Timestamp = (era, lamport,  *)
(*   cuid, delimiter).  The era never changes in this code base (always 0) *)
(*   and is left out.  Clients are the integers 1..N; the harness assigns  *)
(*   them by the rank of the real (random) CUIDs under strings.Compare.    *)
(* A timestamp is the tuple <<lamport, client, delimiter>>.                *)
(***************************************************************************)
EXTENDS Integers, Sequences, FiniteSets, TLC

HeadTs == <<0, 0, 0>>                 \* model.OldestTimestamp(): head of lists, root of documents
NoTs   == <<-1, -1, -1>>              \* "nil" timestamp

\* Timestamp.Compare / OperationID.Compare: (era,) lamport, then cuid; the delimiter is ignored.
TsLess(a, b) == a[1] < b[1] \/ (a[1] = b[1] /\ a[2] < b[2])
TsEq(a, b)   == a[1] = b[1] /\ a[2] = b[2]
TsMax(a, b)  == IF TsLess(a, b) THEN b ELSE a

\* Timestamp.Hash, as built: fmt.Sprintf("%d%d%d%s", era, lamport, delimiter, cuid) - no separators.
\* The client id is rendered as a letter-prefixed token, as real CUIDs are fixed-width strings.
KeyAsBuilt(t) == ToString(0) \o ToString(t[1]) \o ToString(t[3]) \o "c" \o ToString(t[2])
\* Intended: the key identifies the timestamp (lamport, client, delimiter) uniquely.
KeyDesign(t)  == t

\* OperationID.Next / RollBack / SyncLamport on the pair (lamport, seq)
NextId(id)        == [id EXCEPT !.l = @ + 1, !.s = @ + 1]
RollBackId(id)    == [id EXCEPT !.l = @ - 1, !.s = @ - 1]
SyncLamport(own, other) == IF own < other THEN other ELSE own + 1

\* k-th timestamp handed out by GetAndNextDelimiter from an operation timestamp (k = 0, 1, ...)
Delim(ts, k) == <<ts[1], ts[2], ts[3] + k>>
====
