---- MODULE OrdaMultiDump ----
(* Behaviour export of OrdaMulti for the S->I replay through the public client API (Client.Sync) over gRPC. *)
EXTENDS OrdaMulti, Json, TLCExt
CpOut(x) == IF x = NoCp THEN <<-1, -1>> ELSE <<x.s, x.c>>
Obs == [cl |-> [c \in Clients |-> [k \in Keys |-> [state |-> cl[c][k].state, cps |-> cl[c][k].cps, cpc |-> cl[c][k].cpc, seq |-> cl[c][k].seq,
                                                  applied |-> cl[c][k].applied, settled |-> Settled(c, k)]]],
        log |-> log, exists |-> [k \in Keys |-> dt[k].exists], owner |-> [k \in Keys |-> dt[k].duid],
        scp |-> [k \in Keys |-> [c \in Clients |-> CpOut(dt[k].scp[c])]]]
EdgeDump == PrintT("EDGE " \o ToJson([hist |-> hist', obs |-> Obs']))
StepDump == PrintT("STEP " \o ToJson([t |-> TLCGet("stats").traces, l |-> TLCGet("level"), act |-> act,
                                      pact |-> IF Len(hist) >= 2 THEN hist[Len(hist) - 1] ELSE [name |-> "init"], obs |-> Obs]))
====
