---- MODULE OrdaSyncTrace ----
(***************************************************************************)
(* Trace validation (I->S) of real PARALLEL executions of the server       *)
(* against OrdaSync (C12): the harness lets several clients call           *)
(* ProcessPushPull on one datatype at the same moment, each call with its  *)
(* own request context that is cancelled on return, and records            *)
(*   open / local   what each client did before                            *)
(*   call  id c ... the request as it was sent        (invocation)         *)
(*   ret   id ...   what the call returned            (response)           *)
(*   apply id       the client applied the response                        *)
(*   store ...      the stored log and checkpoints at a quiescent point    *)
(* in the order the harness observed them (taken under its own mutex).     *)
(* The handler's effect is not logged: it is the internal step Serve(r) of *)
(* the specification, which TLC places somewhere between call and ret.     *)
(* The trace is accepted iff SOME placement of the internal steps explains *)
(* every logged response and the stored log: the parallel execution equals *)
(* a one-at-a-time order of the requests (linearizability).                *)
(* Several traces are concatenated, separated by `reset` events.           *)
(***************************************************************************)
EXTENDS OrdaSync, Json, TLCExt

TheTrace == ndJsonDeserialize("trace.ndjson")
VARIABLE l
tvars == <<vars, l>>

Ev == TheTrace[l]
Is(e) == l <= Len(TheTrace) /\ Ev.event = e
Adv == l' = l + 1

TOpen == /\ Is("open") /\ Open(Ev.c) /\ ModeOf(Ev.c) = Ev.mode /\ Adv
TLocal == Is("local") /\ Local(Ev.c) /\ Adv
\* the request must be the one the specification's client would send now
TCall == /\ Is("call") /\ Send(Ev.c) /\ Adv
         /\ \E r \in reqs' \ reqs : r.id = Ev.id /\ Len(r.ops) = Ev.nops /\ r.cps = Ev.cps /\ r.cpc = Ev.cpc
\* the internal step: the handler of a request that was called and not yet answered takes effect
TServe == /\ l <= Len(TheTrace) /\ \E r \in reqs : nserve[r.id] = 0 /\ Serve(r) /\ UNCHANGED l
\* the logged response must be the one the specification produced for that request
TRet == /\ Is("ret") /\ Adv
        /\ \E p \in resps : /\ p.id = Ev.id /\ p.kind = Ev.kind
                            /\ (p.kind # "error" => p.cps = Ev.cps /\ p.cpc = Ev.cpc /\ Len(p.ops) = Ev.nops)
        /\ UNCHANGED vars
TApply == /\ Is("apply") /\ Adv /\ \E p \in resps : p.id = Ev.id /\ Apply(p)
\* a dump of the store at a quiescent point: the log as (client, seq) pairs, the end, the checkpoints
TStore == /\ Is("store") /\ Adv /\ UNCHANGED vars
          /\ Len(oplog) = Len(Ev.log) /\ \A i \in 1..Len(oplog) : oplog[i][1] = Ev.log[i][1] /\ oplog[i][2] = Ev.log[i][2]
          /\ dt.end = Ev.end
          /\ \A c \in Clients : (dt.scp[c] = NoCp /\ Ev.scp[c][1] < 0) \/ (dt.scp[c] # NoCp /\ dt.scp[c].s = Ev.scp[c][1] /\ dt.scp[c].c = Ev.scp[c][2])
\* the client's state as read from the real datatype: checkpoint and the operations it holds (as a set)
TClient == /\ Is("client") /\ Adv /\ UNCHANGED vars
           /\ cl[Ev.c].cps = Ev.cps /\ cl[Ev.c].seq = Ev.seq
           /\ {o \in SeqToSet(cl[Ev.c].applied) : o[3] = 0} = {<<Ev.held[i][1], Ev.held[i][2], 0>> : i \in 1..Len(Ev.held)}
TReset == /\ Is("reset") /\ Adv
          /\ cl' = [c \in Clients |-> [state |-> "closed", cps |-> 0, cpc |-> 0, seq |-> 0, applied |-> <<>>, buf |-> <<>>, duid |-> 0, errs |-> 0]]
          /\ dt' = [exists |-> FALSE, duid |-> 0, end |-> 0, typ |-> "", scp |-> [c \in Clients |-> NoCp]]
          /\ oplog' = <<>> /\ reqs' = {} /\ resps' = {} /\ nsend' = 0
          /\ nserve' = [i \in {} |-> 0] /\ napply' = [i \in {} |-> 0]
          /\ act' = [name |-> "reset"] /\ hist' = <<>>

TraceInit == Init /\ l = 1 /\ TLCSet(1, 0)
TraceNext == TOpen \/ TLocal \/ TCall \/ TServe \/ TRet \/ TApply \/ TStore \/ TClient \/ TReset
TraceSpec == TraceInit /\ [][TraceNext]_tvars

\* "violated" exactly when some behaviour consumed the whole trace: that is acceptance
NotAccepted == l <= Len(TheTrace)
\* how far the explanation got (reported when the trace is rejected)
Progress == IF l > TLCGet(1) THEN TLCSet(1, l) /\ PrintT(<<"HW", l>>) ELSE TRUE
TraceView == <<cl, dt, oplog, reqs, resps, nsend, nserve, napply, l>>
====
