\* generated by gentxlock.py - edit there
SPECIFICATION Spec
CONSTANTS
 KindOf = 0
 Procs = {1, 2, 3}
 OpProcs = {1}
 TxProcs = {2, 3}
 RemoteProcs = {}
 FailProcs = {2}
 Calls = 1
 TxLen = 1
 Guarded = TRUE
INVARIANT NoCrash
INVARIANT MutualExclusion
INVARIANT NoLostUnlock
INVARIANT NoLostUpdate
INVARIANT QueuedOnce
INVARIANT TxContiguous
VIEW StateView
ACTION_CONSTRAINT EdgeDump
CHECK_DEADLOCK FALSE
