---- MODULE OrdaSync ----
(***************************************************************************)
(* The push-pull protocol of orda-io/orda: clients with one datatype key,  *)
(* request / response messages, the server's stored log and checkpoints.   *)
(*                                                                         *)
(* client side  client/pkg/internal/datatypes/wired.go                     *)
(*   Open         CreateX / SubscribeX / SubscribeOrCreateX                *)
(*   Local        a local operation (buffered for push)                    *)
(*   Send         CreatePushPullPack: the request is a value in `reqs`     *)
(*   Apply        ApplyPushPullPack of a response                          *)
(* server side  server/service/service_pushpull_datatype.go                *)
(*   Serve        one PushPullHandler run: evaluate case, create/subscribe,*)
(*                push (accept next cseq, skip duplicates, fail on gaps),  *)
(*                pull (from the REQUEST's sseq), commit                   *)
(* network      requests and responses are sets: duplication, loss, delay  *)
(*                and reordering are free, bounded by budgets              *)
(*                                                                         *)
(* Operations are abstracted to their identity <<client, seq, kind>>       *)
(* (kind 1 = the creation snapshot operation, 0 = an ordinary one); that   *)
(* replicas holding the same operations converge is OrdaReplica's business.*)
(* The client's Apply is specified by its INTENDED effect: apply exactly   *)
(* the foreign operations at log positions beyond what it has consumed.    *)
(* (`from`, the log position of the first pulled operation, is a ghost     *)
(* field of the response: the wire format does not carry it.)              *)
(***************************************************************************)
EXTENDS Integers, Sequences, FiniteSets, TLC

CONSTANTS Clients,     \* client ids 1..N
          Creators,    \* clients that open the key with Create
          Subscribers, \* ... with Subscribe; all others use SubscribeOrCreate
          OtherType,   \* clients that open the key as another datatype type (List instead of Counter)
          MaxPre,      \* local operations a Subscribe-only datatype may make before it is subscribed
          MaxOps,      \* local operations per client
          MaxSends,    \* requests created in total
          MaxServes,   \* how often one request may reach the server (2 = duplication)
          MaxApplies,  \* how often one response may reach the client
          Faults,      \* TRUE: responses may be applied late / out of order / twice; FALSE: FIFO exchange
          KeepHist     \* TRUE: the behaviour is recorded in hist (exported for the replay); FALSE for trace validation

VARIABLES cl,      \* cl[c] = [state, cps, cpc, seq, applied, duid, errs]
          dt,      \* server: [exists, duid, end, scp]   scp[c] = [s, c] or <<>> (not subscribed)
          oplog,   \* server: stored operations, position = sseq
          reqs, resps,
          nsend, nserve, napply,
          act, hist
vars == <<cl, dt, oplog, reqs, resps, nsend, nserve, napply, act, hist>>

NoCp == <<>>
ModeOf(c) == IF c \in Creators THEN "dueCreate" ELSE IF c \in Subscribers THEN "dueSub" ELSE "dueSubCreate"
TypeOf(c) == IF c \in OtherType THEN "list" ELSE "counter"
OpId(c, n) == <<c, n, 0>>
SnapId(c) == <<c, 1, 1>>
Max(a, b) == IF a > b THEN a ELSE b
SeqToSet(s) == {s[i] : i \in 1..Len(s)}

Init == /\ cl = [c \in Clients |-> [state |-> "closed", cps |-> 0, cpc |-> 0, seq |-> 0, applied |-> <<>>, buf |-> <<>>, duid |-> 0, errs |-> 0]]
        /\ dt = [exists |-> FALSE, duid |-> 0, end |-> 0, typ |-> "", scp |-> [c \in Clients |-> NoCp]]
        /\ oplog = <<>>
        /\ reqs = {} /\ resps = {}
        /\ nsend = 0 /\ nserve = [i \in {} |-> 0] /\ napply = [i \in {} |-> 0]
        /\ act = [name |-> "init"] /\ hist = <<>>
Record(a) == act' = a /\ hist' = IF KeepHist THEN Append(hist, a) ELSE hist

\* ---- client ----
\* creating modes emit the creation (snapshot) operation at once: sequence number 1
Open(c) ==
    /\ cl[c].state = "closed"
    /\ LET m == ModeOf(c) IN
       cl' = [cl EXCEPT ![c] = [@ EXCEPT !.state = m, !.duid = c,
                                          !.seq = IF m = "dueSub" THEN 0 ELSE 1,
                                          !.applied = IF m = "dueSub" THEN <<>> ELSE <<SnapId(c)>>,
                                          !.buf = IF m = "dueSub" THEN <<>> ELSE <<SnapId(c)>>]]
    /\ Record([name |-> "open", c |-> c, mode |-> ModeOf(c), typ |-> TypeOf(c)])
    /\ UNCHANGED <<dt, oplog, reqs, resps, nsend, nserve, napply>>

Local(c) ==
    /\ cl[c].state # "closed" /\ cl[c].seq < MaxOps + 1
    \* a datatype that only subscribes can be used before its first sync as well: what it does locally
    \* until then is dropped when the subscription arrives, like for SubscribeOrCreate
    /\ cl[c].state = "dueSub" => cl[c].seq < MaxPre
    /\ c \notin OtherType              \* clients of the other type only exercise the entry contract
    /\ cl' = [cl EXCEPT ![c].seq = @ + 1, ![c].applied = Append(@, OpId(c, cl[c].seq + 1)),
                        ![c].buf = Append(@, OpId(c, cl[c].seq + 1))]
    /\ Record([name |-> "local", c |-> c, seq |-> cl[c].seq + 1])
    /\ UNCHANGED <<dt, oplog, reqs, resps, nsend, nserve, napply>>

Send(c) ==
    /\ cl[c].state # "closed" /\ nsend < MaxSends
    /\ LET x == cl[c]
           r == [id |-> nsend + 1, from |-> c, duid |-> x.duid,
                 create |-> x.state \in {"dueCreate", "dueSubCreate"}, sub |-> x.state \in {"dueSub", "dueSubCreate"},
                 cps |-> x.cps, cpc |-> x.seq, ops |-> SelectSeq(x.buf, LAMBDA o : o[2] > x.cpc), typ |-> TypeOf(c)]
       IN /\ reqs' = reqs \cup {r}
          /\ nserve' = (r.id :> 0) @@ nserve
          /\ Record([name |-> "send", c |-> c, id |-> r.id, nops |-> Len(r.ops), cps |-> r.cps, cpc |-> r.cpc,
                     create |-> r.create, sub |-> r.sub])
    /\ nsend' = nsend + 1
    /\ UNCHANGED <<cl, dt, oplog, resps, napply>>

\* ---- server: one handler run, sequential ----
\* pushOperations: accept the next sequence number, skip what is already stored, fail on a gap
RECURSIVE PushOps(_, _, _, _)
PushOps(lg, cur, c, ns) ==
    IF ns = <<>> THEN [log |-> lg, cseq |-> cur, ok |-> TRUE]
    ELSE IF cur + 1 = Head(ns)[2] THEN PushOps(Append(lg, Head(ns)), cur + 1, c, Tail(ns))
    ELSE IF cur >= Head(ns)[2] THEN PushOps(lg, cur, c, Tail(ns))
    ELSE [log |-> lg, cseq |-> cur, ok |-> FALSE]

Respond(r, p) == /\ resps' = resps \cup {p}
                 /\ napply' = (<<p.id, p.n>> :> 0) @@ napply

Serve(r) ==
    /\ r \in reqs /\ nserve[r.id] < MaxServes
    /\ nserve' = [nserve EXCEPT ![r.id] = @ + 1]
    /\ LET c == r.from
           n == nserve[r.id] + 1
           subscribed == dt.exists /\ dt.scp[c] # NoCp
           base == [id |-> r.id, n |-> n, to |-> c]
           refuse(code) == /\ Respond(r, base @@ [kind |-> "error", code |-> code, cps |-> 0, cpc |-> 0, ops |-> <<>>, from |-> 1, duid |-> r.duid])
                           /\ UNCHANGED <<dt, oplog>>
           \* the handler proper, on a datatype the client is (or becomes) subscribed to
           run(kind, scp0, fromSseq, pushNums) ==
               LET res == PushOps(oplog, scp0.c, c, pushNums)
                   pulled == SubSeq(oplog, fromSseq + 1, Len(oplog))
                   ncp == [s |-> Len(res.log), c |-> res.cseq]
               IN IF ~res.ok THEN refuse("missingOps")
                  ELSE /\ oplog' = res.log
                       /\ dt' = [exists |-> TRUE, duid |-> IF dt.exists THEN dt.duid ELSE r.duid, end |-> Len(res.log),
                                 typ |-> IF dt.exists THEN dt.typ ELSE r.typ,
                                 scp |-> [dt.scp EXCEPT ![c] = ncp]]
                       /\ Respond(r, base @@ [kind |-> kind, code |-> "", cps |-> ncp.s, cpc |-> ncp.c, ops |-> pulled,
                                              from |-> fromSseq + 1, duid |-> IF dt.exists THEN dt.duid ELSE r.duid])
           \* subscribing is repeatable: a subscribing request that arrives again (the client is subscribed by
           \* now) is answered like the first time and pushes nothing - whatever it carries was created before
           \* the subscription and is dropped by the client as well. The creator's own repeated request is an
           \* ordinary push (its duid is the datatype's).
           again == IF dt.duid = r.duid THEN run("normal", dt.scp[c], r.cps, r.ops)
                    ELSE run("subscribed", dt.scp[c], r.cps, <<>>)
       IN CASE (r.create \/ r.sub) /\ dt.exists /\ dt.typ # r.typ -> refuse("typeMismatch")   \* the key names a datatype of another type
            [] r.create /\ r.sub ->
                 IF ~dt.exists THEN run("created", [s |-> 0, c |-> 0], r.cps, r.ops)
                 ELSE IF ~subscribed THEN run("subscribed", [s |-> 0, c |-> 0], r.cps, <<>>)
                 ELSE again
            [] r.sub /\ ~r.create ->
                 IF ~dt.exists THEN refuse("noDatatypeToSubscribe")
                 ELSE IF ~subscribed THEN run("subscribed", [s |-> 0, c |-> 0], r.cps, <<>>)
                 ELSE run("subscribed", dt.scp[c], r.cps, <<>>)
            [] r.create /\ ~r.sub ->
                 IF ~dt.exists THEN run("created", [s |-> 0, c |-> 0], r.cps, r.ops)
                 ELSE IF ~subscribed THEN refuse("duplicateKey")
                 ELSE run("normal", dt.scp[c], r.cps, r.ops)
            [] OTHER ->
                 IF dt.exists /\ dt.duid = r.duid /\ subscribed THEN run("normal", dt.scp[c], r.cps, r.ops)
                 ELSE refuse("unknown")        \* not reached by well-behaved clients; see OrdaSyncBad for mutated requests
    /\ LET p == CHOOSE q \in resps' : q.id = r.id /\ q.n = nserve[r.id] + 1 IN
       Record([name |-> "serve", id |-> r.id, n |-> p.n, c |-> r.from, kind |-> p.kind, code |-> p.code,
               cps |-> p.cps, cpc |-> p.cpc, nops |-> Len(p.ops)])
    /\ UNCHANGED <<cl, reqs, nsend>>

\* ---- client: apply a response (intended effect) ----
Foreign(c, s) == SelectSeq(s, LAMBDA o : o[1] # c)
Apply(p) ==
    /\ p \in resps /\ napply[<<p.id, p.n>>] < MaxApplies
    /\ napply' = [napply EXCEPT ![<<p.id, p.n>>] = @ + 1]
    /\ LET c == p.to
           x == cl[c]
       IN CASE p.kind = "error" ->
                 \* refused: reported to the error handler, the datatype stays as it was
                 cl' = [cl EXCEPT ![c].errs = @ + 1]
            [] p.kind = "subscribed" /\ x.state \in {"dueSub", "dueSubCreate"} ->
                 \* first state = the log up to the subscription point; anything done locally before is dropped
                 cl' = [cl EXCEPT ![c] = [@ EXCEPT !.state = "subscribed", !.duid = p.duid, !.cps = p.cps, !.cpc = p.cpc,
                                                   !.seq = 0, !.applied = p.ops, !.buf = <<>>]]
            [] OTHER ->
                 \* apply the foreign operations at log positions beyond the consumed prefix, in log order
                 LET idx == {i \in 1..Len(p.ops) : p.from + i - 1 > x.cps /\ p.ops[i][1] # c}
                     sel == SelectSeq([i \in 1..Len(p.ops) |-> IF i \in idx THEN p.ops[i] ELSE <<0, 0, 0>>], LAMBDA o : o # <<0, 0, 0>>)
                 IN cl' = [cl EXCEPT ![c] = [@ EXCEPT !.state = IF x.state = "closed" THEN "closed" ELSE "subscribed",
                                                      !.duid = p.duid,
                                                      !.cps = Max(@, p.cps), !.cpc = Max(@, p.cpc),
                                                      !.applied = @ \o sel]]
    /\ Record([name |-> "apply", id |-> p.id, n |-> p.n, c |-> p.to])
    /\ UNCHANGED <<dt, oplog, reqs, resps, nsend, nserve>>

\* without faults a response is applied exactly once, right after it was produced and before the
\* client does anything else (the synchronous Sync call)
Pending(c) == \E p \in resps : p.to = c /\ napply[<<p.id, p.n>>] = 0
Busy(c) == \E r \in reqs : r.from = c /\ nserve[r.id] = 0
Next == \/ \E c \in Clients : (Faults \/ (~Pending(c) /\ ~Busy(c))) /\ (Open(c) \/ Local(c) \/ Send(c))
        \/ \E r \in reqs : Serve(r)
        \/ \E p \in resps : Apply(p)
Spec == Init /\ [][Next]_vars

---------------------------------------------------------------------------
NoDup(s) == \A i, j \in 1..Len(s) : i # j => s[i] # s[j]
\* C06
LogNoRepeats == NoDup(oplog)
LogEndRecorded == dt.end = Len(oplog)
PerClientOrder == \A c \in Clients : LET mine == SelectSeq(oplog, LAMBDA o : o[1] = c) IN
                      \A i \in 1..Len(mine) : mine[i][2] = i
CpWithinLog == \A c \in Clients : dt.scp[c] # NoCp =>
                   /\ dt.scp[c].s <= Len(oplog)
                   /\ dt.scp[c].c = Cardinality({i \in 1..Len(oplog) : oplog[i][1] = c})
\* C05 / C07
AppliedExactlyOnce == \A c \in Clients : NoDup(cl[c].applied)
AppliedInLogOrder == \A c \in Clients : cl[c].state = "subscribed" =>
                        LET fa == Foreign(c, cl[c].applied) IN fa = SubSeq(Foreign(c, oplog), 1, Len(fa))
CpMonotone == [][\A c \in Clients : (cl[c].state = "subscribed" /\ cl'[c].state = "subscribed") =>
                                        cl'[c].cps >= cl[c].cps /\ cl'[c].cpc >= cl[c].cpc]_vars
ClientCpWithinLog == \A c \in Clients : cl[c].cps <= Len(oplog)
Settled(c) == cl[c].state = "subscribed" /\ cl[c].cps = Len(oplog) /\ cl[c].cpc = cl[c].seq
\* a settled client holds exactly the stored log (as a set of operations)
QuiescentAgreement == \A c \in Clients : Settled(c) => SeqToSet(cl[c].applied) = SeqToSet(oplog)
\* C13
OneDatatype == dt.exists => dt.duid \in Clients
StateView == <<cl, dt, oplog, reqs, resps, nsend, nserve, napply>>
====
