---- MODULE OrdaReplica ----
(***************************************************************************)
(* N replicas of ONE orda datatype and the server's log order.             *)
(*                                                                         *)
(* One action per public call / linearization point of the client library: *)
(*   Local        SentenceInTx(local): SetNextOpID, ExecuteLocal, buffer   *)
(*   LocalInvalid argument validation / failing ExecuteLocal + RollBack    *)
(*   Tx           DoTransaction: header operation, body, commit or abort   *)
(*   Push         the push half of a sync: pending operations -> log       *)
(*   Deliver      ReceiveRemoteModelOperations of the next foreign entry   *)
(*                or whole transaction unit, in log order                  *)
(*   DeliverBad   an incomplete unit: must change nothing                  *)
(*   Restore      GetMetaAndSnapshot -> fresh instance -> SetMetaAndSnapshot *)
(* Kind selects the datatype kernel (Kernels.tla, KDoc.tla).               *)
(***************************************************************************)
EXTENDS Kernels, KDoc

CONSTANTS Kind,        \* "counter" | "map" | "list" | "doc"
          Replicas,    \* set of client ids (integers; their order is the CUID order)
          MaxLocal,    \* local calls per replica (calls inside transactions included)
          MoreLocal,   \* replicas that may make one call more (asymmetric budgets keep graphs small)
          MaxBatch,    \* list: elements per insert / delete / update
          Keys,        \* map: keys
          Deltas,      \* counter: increments
          MaxTx,       \* longest transaction body (0: no transactions)
          MaxBad,      \* invalid calls per replica (0: none)
          MaxRestore,  \* Restore steps per behaviour
          MaxBadUnit,  \* malformed unit deliveries per behaviour
          RePut,       \* map: TRUE adds "put the value the key already shows" to the calls
          SimMode      \* TRUE only under tlc -simulate: every action draws ONE random argument (RandomElement)
                       \* instead of offering all of them, so a simulation step has one candidate per action

VARIABLES st,      \* st[r] = [snap, l (lamport), s (seq), n (#calls), b (#invalid calls)]
          outbox,  \* outbox[r]: operations emitted and not yet pushed
          log,     \* the server's total order: sequence of [from, op]
          pulled,  \* pulled[r]: log position consumed by r
          plain,   \* the plain data structure (meaningful with one replica)
          nres, nbad,
          act,     \* the action that led here (name, arguments, returned value, plain return)
          hist     \* all actions so far (outside the VIEW)
vars == <<st, outbox, log, pulled, plain, nres, nbad, act, hist>>

---------------------------------------------------------------------------
Pick(S) == IF SimMode /\ S # {} THEN {RandomElement(S)} ELSE S
Budget(r) == MaxLocal + (IF r \in MoreLocal THEN 1 ELSE 0)
\* kernel dispatch
KInit == CASE Kind = "counter" -> CInit [] Kind = "map" -> MInit [] Kind = "list" -> LInit [] Kind = "doc" -> DInit
KLocal(s, call, ts) == CASE Kind = "counter" -> CLocal(s, call, ts) [] Kind = "map" -> MLocal(s, call, ts)
                         [] Kind = "list" -> LLocal(s, call, ts) [] Kind = "doc" -> DLocal(s, call, ts)
KRemote(s, op) == CASE Kind = "counter" -> CRemote(s, op) [] Kind = "map" -> MRemote(s, op)
                    [] Kind = "list" -> LRemote(s, op) [] Kind = "doc" -> DRemote(s, op)
KView(s) == CASE Kind = "counter" -> CView(s) [] Kind = "map" -> MView(s) [] Kind = "list" -> LView(s) [] Kind = "doc" -> DView(s)
KSize(s) == CASE Kind = "counter" -> 0 [] Kind = "map" -> MSize(s) [] Kind = "list" -> LSize(s) [] Kind = "doc" -> DSize(s)
KPlainInit == CASE Kind = "counter" -> CPlainInit [] Kind = "map" -> MPlainInit [] Kind = "list" -> LPlainInit [] Kind = "doc" -> DPlainInit
KPlain(p, call) == CASE Kind = "counter" -> CPlain(p, call) [] Kind = "map" -> MPlain(p, call)
                     [] Kind = "list" -> LPlain(p, call) [] Kind = "doc" -> DPlain(p, call)
KPlainView(p) == CASE Kind = "doc" -> DPlainView(p) [] OTHER -> p
KRef(ops) == CASE Kind = "counter" -> CRef(ops) [] Kind = "map" -> MRef(ops) [] Kind = "list" -> LRef(ops) [] Kind = "doc" -> DRef(ops)

\* unique value tag of the k-th value of replica r's n-th call
Val(r, n, k) == r * 1000 + n * 10 + k
Vals(r, n, cnt) == [k \in 1..cnt |-> Val(r, n, k)]

\* calls that must succeed in local state x of replica r
ValidCalls(r, x) ==
    CASE Kind = "counter" -> {[op |-> "inc", d |-> d] : d \in Deltas}
      [] Kind = "map"  -> {[op |-> "put", k |-> k, v |-> Val(r, x.n + 1, 1)] : k \in Keys}
                            \cup {[op |-> "remove", k |-> k] : k \in MLive(x.snap)}
                            \* writing the value a key already shows: the readable state stays, the entry's timestamp moves
                            \cup (IF RePut THEN {[op |-> "put", k |-> k, v |-> MGet(x.snap, k)] : k \in MLive(x.snap)} ELSE {})
      [] Kind = "list" -> LET sz == LSize(x.snap) IN
                          {[op |-> "insert", pos |-> p, vals |-> Vals(r, x.n + 1, c)] : p \in 0..sz, c \in 1..MaxBatch}
                            \cup {[op |-> "delete", pos |-> pc[1], n |-> pc[2]] : pc \in {q \in (0..sz) \X (1..MaxBatch) : q[1] + q[2] <= sz}}
                            \cup {[op |-> "update", pos |-> pc[1], vals |-> Vals(r, x.n + 1, pc[2])] : pc \in {q \in (0..sz) \X (1..MaxBatch) : q[1] + q[2] <= sz}}
      [] Kind = "doc"  -> DValidCalls(x.snap, r, x.n + 1)
\* calls that must be refused without any effect; err = "free" where the statement of C03 does not
\* classify the call as invalid but the code refuses it (removing an absent key)
InvalidCalls(r, x) ==
    CASE Kind = "counter" -> {}
      [] Kind = "map"  -> {[op |-> "put", k |-> "", v |-> Val(r, x.n + 1, 1), err |-> "must"],
                           [op |-> "remove", k |-> "", err |-> "must"]}
                            \cup {[op |-> "put", k |-> k, v |-> Nil, err |-> "must"] : k \in Keys}
                            \cup {[op |-> "remove", k |-> k, err |-> "free"] : k \in Keys \ MLive(x.snap)}
      [] Kind = "list" -> LET sz == LSize(x.snap) IN
                          {[op |-> "insert", pos |-> p, vals |-> Vals(r, x.n + 1, 1), err |-> "must"] : p \in {-1, sz + 1}}
                            \cup {[op |-> "delete", pos |-> p, n |-> c, err |-> "must"] :
                                      <<p, c>> \in {<<-1, 1>>, <<sz, 1>>, <<0, 0>>, <<0, sz + 1>>, <<sz + 1, 1>>}}
                            \cup {[op |-> "update", pos |-> p, vals |-> Vals(r, x.n + 1, c), err |-> "must"] :
                                      <<p, c>> \in {<<-1, 1>>, <<sz, 1>>, <<0, sz + 1>>}}
                            \cup {[op |-> "get", pos |-> p, err |-> "must"] : p \in {-1, sz}}
      [] Kind = "doc"  -> DInvalidCalls(x.snap, r, x.n + 1)

\* the invalid calls tried inside transaction bodies (a representative subset keeps Tx finite-branching)
TxInvalidCalls(r, x) ==
    CASE Kind = "map"  -> {c \in InvalidCalls(r, x) : c.op = "remove" /\ c.k # ""}
      [] Kind = "list" -> {c \in InvalidCalls(r, x) : c.op \in {"insert", "delete"} /\ c.pos = LSize(x.snap) + 1}
      [] OTHER -> InvalidCalls(r, x)

\* one successful local call in local state x: the next operation id is consumed, the kernel runs
Step(r, x, call) ==
    LET ts == <<x.l + 1, r, 0>>
        res == KLocal(x.snap, call, ts)
    IN [x |-> [x EXCEPT !.snap = res.s, !.l = @ + 1, !.s = @ + 1, !.n = @ + 1],
        op |-> Merge(res.body, [ts |-> ts, seq |-> x.s + 1]), ret |-> res.ret]

---------------------------------------------------------------------------
\* SubscribeOrCreate(DUE_TO_CREATE): every replica has consumed operation id 1 (lamport 1) for its
\* creation snapshot operation, which is never delivered to the others.
Init == /\ st = [r \in Replicas |-> [snap |-> KInit, l |-> 1, s |-> 1, n |-> 0, b |-> 0]]
        /\ outbox = [r \in Replicas |-> <<>>]
        /\ log = <<>>
        /\ pulled = [r \in Replicas |-> 0]
        /\ plain = KPlainInit
        /\ nres = 0 /\ nbad = 0
        /\ act = [name |-> "init"]
        /\ hist = <<>>

Record(a) == act' = a /\ hist' = Append(hist, a)

Local(r) ==
    /\ st[r].n < Budget(r)
    /\ \E call \in Pick(ValidCalls(r, st[r])) :
         LET res == Step(r, st[r], call)
             pl == KPlain(plain, call)
         IN /\ st' = [st EXCEPT ![r] = res.x]
            /\ outbox' = [outbox EXCEPT ![r] = Append(@, res.op)]
            /\ plain' = IF Cardinality(Replicas) = 1 THEN pl.p ELSE plain
            /\ Record([name |-> "local", r |-> r, call |-> call, ret |-> res.ret,
                       pret |-> IF Cardinality(Replicas) = 1 THEN pl.ret ELSE res.ret, op |-> res.op])
    /\ UNCHANGED <<log, pulled, nres, nbad>>

LocalInvalid(r) ==
    /\ st[r].b < MaxBad
    /\ \E call \in Pick(InvalidCalls(r, st[r])) :
         /\ st' = [st EXCEPT ![r].b = @ + 1]
         /\ Record([name |-> "localInvalid", r |-> r, call |-> call])
    /\ UNCHANGED <<outbox, log, pulled, plain, nres, nbad>>

\* all runs of a transaction body of at most k calls from local state x; a body may contain invalid
\* calls (refused one by one, the transaction goes on) and ends when the closure returns
RECURSIVE TxRuns(_, _, _)
TxRuns(r, x, k) ==
    {[calls |-> <<>>, x |-> x, ops |-> <<>>, rets |-> <<>>]} \cup
    IF k = 0 \/ x.n >= Budget(r) THEN {}
    ELSE UNION {LET sres == Step(r, x, c) IN
                  {[calls |-> <<c>> \o t.calls, x |-> t.x, ops |-> <<sres.op>> \o t.ops, rets |-> <<sres.ret>> \o t.rets]
                      : t \in TxRuns(r, sres.x, k - 1)} : c \in ValidCalls(r, x)}
         \cup (IF x.b >= MaxBad THEN {}
               ELSE UNION {{[calls |-> <<c>> \o t.calls, x |-> t.x, ops |-> t.ops, rets |-> <<"err">> \o t.rets]
                      : t \in TxRuns(r, [x EXCEPT !.b = @ + 1], k - 1)} : c \in TxInvalidCalls(r, x)})

\* simulation: one random run of at most k calls
RECURSIVE RandomRun(_, _, _)
RandomRun(r, x, k) ==
    LET stop == [calls |-> <<>>, x |-> x, ops |-> <<>>, rets |-> <<>>]
        vc == IF x.n >= Budget(r) THEN {} ELSE ValidCalls(r, x)
        ic == IF x.b >= MaxBad THEN {} ELSE TxInvalidCalls(r, x)
    IN IF k = 0 \/ vc \cup ic = {} \/ RandomElement(1..4) = 1 THEN stop
       ELSE LET c == RandomElement(vc \cup ic) IN
            IF c \in vc
            THEN LET sres == Step(r, x, c)  t == RandomRun(r, sres.x, k - 1)
                 IN [calls |-> <<c>> \o t.calls, x |-> t.x, ops |-> <<sres.op>> \o t.ops, rets |-> <<sres.ret>> \o t.rets]
            ELSE LET t == RandomRun(r, [x EXCEPT !.b = @ + 1], k - 1)
                 IN [calls |-> <<c>> \o t.calls, x |-> t.x, ops |-> t.ops, rets |-> <<"err">> \o t.rets]

Tx(r) ==
    /\ MaxTx > 0 /\ st[r].n < Budget(r)
    /\ LET x0 == st[r]
           hts == <<x0.l + 1, r, 0>>
           x1 == [x0 EXCEPT !.l = @ + 1, !.s = @ + 1]      \* the header consumes an operation id
       IN \E run \in (IF SimMode THEN {RandomRun(r, x1, MaxTx)} ELSE TxRuns(r, x1, MaxTx)), commit \in BOOLEAN :
            LET header == [type |-> "tx", ts |-> hts, seq |-> x0.s + 1, n |-> Len(run.ops) + 1]
                bumped == [x0 EXCEPT !.n = run.x.n + (IF run.calls = <<>> THEN 1 ELSE 0), !.b = run.x.b]
            IN /\ IF commit
                  THEN /\ st' = [st EXCEPT ![r] = [run.x EXCEPT !.n = bumped.n]]
                       /\ outbox' = [outbox EXCEPT ![r] = @ \o <<header>> \o run.ops]
                  ELSE /\ st' = [st EXCEPT ![r] = bumped]      \* abort: state, clock, seq as before
                       /\ UNCHANGED outbox
               /\ Record([name |-> "tx", r |-> r, calls |-> run.calls, commit |-> commit, rets |-> run.rets,
                          ops |-> IF commit THEN <<header>> \o run.ops ELSE <<>>])
    /\ Cardinality(Replicas) > 1    \* the plain structure is not tracked through transactions
    /\ UNCHANGED <<log, pulled, plain, nres, nbad>>

Push(r) ==
    /\ outbox[r] # <<>>
    /\ log' = log \o [i \in 1..Len(outbox[r]) |-> [from |-> r, op |-> outbox[r][i]]]
    /\ outbox' = [outbox EXCEPT ![r] = <<>>]
    /\ Record([name |-> "push", r |-> r, n |-> Len(outbox[r])])
    /\ UNCHANGED <<st, pulled, plain, nres, nbad>>

\* remote application of a sequence of operations: SyncLamport then ExecuteRemote, one by one
RECURSIVE ApplyOps(_, _)
ApplyOps(x, ops) ==
    IF ops = <<>> THEN x
    ELSE LET o == Head(ops) IN
         ApplyOps([x EXCEPT !.l = SyncLamport(@, o.ts[1]),
                            !.snap = IF o.type = "tx" THEN @ ELSE KRemote(@, o)], Tail(ops))
\* the unit that starts at log position i: one operation, or header + announced operations
UnitLen(i) == IF log[i].op.type = "tx" THEN log[i].op.n ELSE 1
UnitOps(i) == [k \in 1..UnitLen(i) |-> log[i + k - 1].op]
\* what ExecuteRemoteTransactionWithCtx executes: a unit of length > 1 without its header
Executed(unit) == IF Len(unit) > 1 THEN Tail(unit) ELSE unit

Deliver(r) ==
    /\ pulled[r] < Len(log)
    /\ LET i == pulled[r] + 1
           own == log[i].from = r
           unit == UnitOps(i)
       IN /\ IF own THEN UNCHANGED st
             ELSE st' = [st EXCEPT ![r] = ApplyOps(@, Executed(unit))]
          /\ pulled' = [pulled EXCEPT ![r] = @ + Len(unit)]
          /\ Record([name |-> "deliver", r |-> r, own |-> own, n |-> Len(unit)])
    /\ UNCHANGED <<outbox, log, plain, nres, nbad>>

\* a unit whose announced length exceeds what was delivered: nothing may be applied
DeliverBad(r) ==
    /\ nbad < MaxBadUnit /\ pulled[r] < Len(log)
    /\ LET i == pulled[r] + 1 IN
       /\ log[i].from # r /\ log[i].op.type = "tx" /\ log[i].op.n > 1
       /\ \E cut \in Pick(1..(log[i].op.n - 1)) :
            Record([name |-> "deliverBad", r |-> r, keep |-> cut])    \* the first `cut` operations of the unit
    /\ nbad' = nbad + 1
    /\ UNCHANGED <<st, outbox, log, pulled, plain, nres>>

Restore(r) ==
    /\ nres < MaxRestore
    /\ nres' = nres + 1
    /\ Record([name |-> "restore", r |-> r])
    /\ UNCHANGED <<st, outbox, log, pulled, plain, nbad>>

Next == \E r \in Replicas : Local(r) \/ LocalInvalid(r) \/ Tx(r) \/ Push(r) \/ Deliver(r) \/ DeliverBad(r) \/ Restore(r)
Spec == Init /\ [][Next]_vars

---------------------------------------------------------------------------
\* operations (not headers) that replica r has applied: everything pulled, everything of its own
LogOps(P(_)) == {log[i].op : i \in {j \in 1..Len(log) : P(j)}}
AppliedOps(r) == {o \in LogOps(LAMBDA i : i <= pulled[r] \/ log[i].from = r) \cup SeqToSet(outbox[r]) : o.type # "tx"}
AppliedIds(r) == {<<o.ts[2], o.seq>> : o \in AppliedOps(r)}
SameSet(a, b) == AppliedIds(a) = AppliedIds(b)

\* C01: replicas holding the same operations expose the same state - in every state, not only at
\* global quiescence
Convergence == \A a, b \in Replicas : SameSet(a, b) =>
                   KView(st[a].snap) = KView(st[b].snap) /\ KSize(st[a].snap) = KSize(st[b].snap)
\* C02: every replica shows the reference outcome of the SET of operations it holds - in every state
RefOutcome == \A r \in Replicas : KView(st[r].snap) = KRef(AppliedOps(r))
\* C02 (documents): the object rule stated directly on the node table
DocObjRule == Kind = "doc" => \A r \in Replicas : DObjRule(st[r].snap, AppliedOps(r))
\* C03: with one replica the datatype is its plain structure, call by call
PlainRefinement == Cardinality(Replicas) = 1 =>
                     /\ \A r \in Replicas : KView(st[r].snap) = KPlainView(plain)
                     /\ act.name = "local" => act.ret = act.pret
\* C04 (lists): identifiers are unique; an element is present iff its insert was applied and live iff
\* no delete of it was applied; any two elements are in the same relative order everywhere
ListIds(s) == [i \in 1..Len(s) |-> s[i].id]
NoDupIds == Kind = "list" => \A r \in Replicas : LET s == st[r].snap IN
                \A i, j \in 1..Len(s) : i # j => s[i].id # s[j].id
InsertedIds(S) == UNION {{Delim(o.ts, k - 1) : k \in 1..Len(o.vals)} : o \in {x \in S : x.type = "insert"}}
DeletedIds(S) == UNION {SeqToSet(o.targets) : o \in {x \in S : x.type = "delete"}}
PresenceExact == Kind = "list" => \A r \in Replicas : LET s == st[r].snap  S == AppliedOps(r) IN
                   /\ SeqToSet(ListIds(s)) = InsertedIds(S)
                   /\ {s[i].id : i \in {j \in 1..Len(s) : s[j].v # Nil}} = InsertedIds(S) \ DeletedIds(S)
SameOrder == Kind = "list" => \A a, b \in Replicas : LET sa == st[a].snap  sb == st[b].snap IN
               \A i, j \in 1..Len(sa) : (i < j /\ LHasId(sb, sa[i].id) /\ LHasId(sb, sa[j].id))
                                            => LIdx(sb, sa[i].id) < LIdx(sb, sa[j].id)
\* the same statement in a form that is cheap on long lists (used for recorded traces): restricted to the elements
\* both replicas hold, the two identifier sequences are equal (equivalent to SameOrder given NoDupIds)
CommonIds(sa, sb) == LET inb == SeqToSet(ListIds(sb)) IN SelectSeq(ListIds(sa), LAMBDA id : id \in inb)
SameOrderSeq == Kind = "list" => \A a, b \in Replicas : CommonIds(st[a].snap, st[b].snap) = CommonIds(st[b].snap, st[a].snap)
\* C15: sequence numbers 2, 3, 4, ... per client (1 is the creation operation); a new local operation
\* is ordered after everything its replica has applied; timestamps of distinct operations differ
OpsOf(r) == SelectSeq([i \in 1..Len(log) |-> log[i]], LAMBDA e : e.from = r)
SeqGapless == \A r \in Replicas : LET mine == [i \in 1..Len(OpsOf(r)) |-> OpsOf(r)[i].op] \o outbox[r] IN
                  /\ \A i \in 1..Len(mine) : mine[i].seq = i + 1
                  /\ st[r].s = Len(mine) + 1
CausalTs == \A r \in Replicas : \A o \in AppliedOps(r) : o.ts[1] <= st[r].l
AllOps == LogOps(LAMBDA i : TRUE) \cup UNION {SeqToSet(outbox[r]) : r \in Replicas}
IdsUnique == \A o1, o2 \in AllOps : (o1.ts[1] = o2.ts[1] /\ o1.ts[2] = o2.ts[2]) => o1 = o2
\* C09: units are contiguous in the log and announce their own length
UnitsWellFormed == \A i \in 1..Len(log) : log[i].op.type = "tx" =>
                      /\ i + log[i].op.n - 1 <= Len(log)
                      /\ \A k \in 1..(log[i].op.n - 1) : log[i + k].from = log[i].from /\ log[i + k].op.type # "tx"
                                                           /\ log[i + k].op.seq = log[i].op.seq + k
TxAbortIsNoop == [][(act'.name = "tx" /\ ~act'.commit) =>
                      \A r \in Replicas : /\ st'[r].snap = st[r].snap /\ st'[r].l = st[r].l /\ st'[r].s = st[r].s
                                          /\ outbox'[r] = outbox[r]]_vars
InvalidIsNoop == [][act'.name \in {"localInvalid", "deliverBad", "restore"} =>
                      \A r \in Replicas : /\ st'[r].snap = st[r].snap /\ st'[r].l = st[r].l /\ st'[r].s = st[r].s
                                          /\ outbox'[r] = outbox[r]]_vars

Quiescent == \A r \in Replicas : outbox[r] = <<>> /\ pulled[r] = Len(log)
StateView == <<st, outbox, log, pulled, plain, nres, nbad>>
====
