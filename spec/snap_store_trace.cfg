\* trace validation of store-level writes recorded from real parallel pushes (see OrdaSnapStore.tla)
SPECIFICATION TraceSpec
INVARIANT NotAccepted
CONSTRAINT Progress
INVARIANT UserDocIsSnapshot
INVARIANT SnapshotWithinLog
CHECK_DEADLOCK FALSE
