SPECIFICATION Spec
INVARIANT Dump
CHECK_DEADLOCK FALSE
