---- MODULE Kernels ----
(***************************************************************************)
(* Pure datatype kernels of orda-io/orda (client/pkg/orda): Counter, Map,  *)
(* List.  Each kernel gives                                                *)
(*   XInit, XLocal(s, call, ts) -> [s, ret, body], XRemote(s, op) -> s',   *)
(*   XView(s), XSize(s), the plain data structure XPlain*, and the         *)
(*   reference outcome XRef(ops) of a SET of operations (no arrival order).*)
(* A call is a record [op |-> name, ...]; an operation is the call's body  *)
(* plus ts = <<lamport, client, 0>> and seq.  Values are integer tags; Nil *)
(* marks a tombstone / absent value.                                       *)
(***************************************************************************)
EXTENDS OrdaIds

Nil == -1

Merge(f, g) == [x \in (DOMAIN f) \cup (DOMAIN g) |-> IF x \in DOMAIN g THEN g[x] ELSE f[x]]
SeqToSet(s) == {s[i] : i \in 1..Len(s)}
Greatest(S, Lt(_, _)) == CHOOSE x \in S : \A y \in S : y = x \/ Lt(y, x)

(***************************** Counter *************************************)
\* counter.go: int32 sum.  The model counts in 4-bit two's complement; the harness scales every
\* delta by 2^28, so that model wrap-around is exactly int32 wrap-around.
Wrap(x) == ((x + 8) % 16) - 8
CInit == 0
CLocal(s, call, ts) == [s |-> Wrap(s + call.d), ret |-> Wrap(s + call.d), body |-> [type |-> "inc", d |-> call.d]]
CRemote(s, op) == Wrap(s + op.d)
CView(s) == s
CPlainInit == 0
CPlain(p, call) == [p |-> Wrap(p + call.d), ret |-> Wrap(p + call.d)]
RECURSIVE SumSet(_)
SumSet(S) == IF S = {} THEN 0 ELSE LET o == CHOOSE o \in S : TRUE IN o.d + SumSet(S \ {o})
CRef(ops) == Wrap(SumSet(ops))

(******************************* Map ***************************************)
\* map.go: key -> timedNode{V, T}; last writer wins on T; V = nil is a tombstone.
EmptyFn == [x \in {} |-> 0]
MInit == EmptyFn
MLive(s) == {k \in DOMAIN s : s[k].v # Nil}
MView(s) == [k \in MLive(s) |-> s[k].v]
MSize(s) == Cardinality(MLive(s))
MGet(s, k) == IF k \in MLive(s) THEN s[k].v ELSE Nil
\* putCommonWithTimedType
MPut(s, k, v, ts) == IF k \notin DOMAIN s THEN Merge(s, k :> [v |-> v, t |-> ts])
                     ELSE IF TsLess(s[k].t, ts) THEN [s EXCEPT ![k] = [v |-> v, t |-> ts]] ELSE s
\* removeRemoteWithTimedType (an absent key cannot be targeted under causal delivery: no-op)
MRemove(s, k, ts) == IF k \in DOMAIN s /\ TsLess(s[k].t, ts) THEN [s EXCEPT ![k] = [v |-> Nil, t |-> ts]] ELSE s
MLocal(s, call, ts) ==
    CASE call.op = "put"    -> [s |-> MPut(s, call.k, call.v, ts), ret |-> MGet(s, call.k),
                                body |-> [type |-> "put", k |-> call.k, v |-> call.v]]
      [] call.op = "remove" -> [s |-> MRemove(s, call.k, ts), ret |-> MGet(s, call.k),
                                body |-> [type |-> "remove", k |-> call.k]]
MRemote(s, op) == CASE op.type = "put" -> MPut(s, op.k, op.v, op.ts)
                    [] op.type = "remove" -> MRemove(s, op.k, op.ts)
\* the plain structure: a function key -> value
MPlainInit == EmptyFn
MPlain(p, call) ==
    CASE call.op = "put"    -> [p |-> Merge(p, call.k :> call.v), ret |-> IF call.k \in DOMAIN p THEN p[call.k] ELSE Nil]
      [] call.op = "remove" -> [p |-> [k \in (DOMAIN p) \ {call.k} |-> p[k]], ret |-> p[call.k]]
\* reference: the key holds the value of the put/remove with the greatest timestamp
MRef(ops) == LET ks == {o.k : o \in ops}
                 win(k) == Greatest({o \in ops : o.k = k}, LAMBDA a, b : TsLess(a.ts, b.ts))
                 live == {k \in ks : win(k).type = "put"}
             IN [k \in live |-> win(k).v]

(****************************** List ***************************************)
\* list.go / ordered.go: RGA. A snapshot is the sequence of nodes after the head sentinel;
\* node = [id (orderedNode.O), v (value or Nil), t (timedNode.T)].
LInit == <<>>
LLive(s) == SelectSeq(s, LAMBDA n : n.v # Nil)
LSize(s) == Len(LLive(s))
LView(s) == [i \in 1..LSize(s) |-> LLive(s)[i].v]
LHasId(s, id) == id = HeadTs \/ \E i \in 1..Len(s) : s[i].id = id
LIdx(s, id) == IF id = HeadTs THEN 0 ELSE CHOOSE i \in 1..Len(s) : s[i].id = id
\* index in s of the pos-th live node (pos >= 1); 0 for the head: listSnapshot.retrieve
LLiveIdx(s, pos) == IF pos = 0 THEN 0
                    ELSE CHOOSE i \in 1..Len(s) : s[i].v # Nil /\ Cardinality({j \in 1..i : s[j].v # Nil}) = pos
InsertAt(s, i, ns) == SubSeq(s, 1, i) \o ns \o SubSeq(s, i + 1, Len(s))
LNewNodes(ts, vals) == [k \in 1..Len(vals) |-> [id |-> Delim(ts, k - 1), v |-> vals[k], t |-> Delim(ts, k - 1)]]
\* insertRemoteWithTimedTypes: from the anchor, skip following nodes whose id is newer
RECURSIVE LSkipNewer(_, _, _)
LSkipNewer(s, i, ts) == IF i < Len(s) /\ TsLess(ts, s[i + 1].id) THEN LSkipNewer(s, i + 1, ts) ELSE i
LInsert(s, target, ts, vals) ==
    IF ~LHasId(s, target) THEN s ELSE InsertAt(s, LSkipNewer(s, LIdx(s, target), ts), LNewNodes(ts, vals))
\* deleteRemote: tombstone; a tombstone keeps the newest delete timestamp
LDelete(s, targets, ts) ==
    [i \in 1..Len(s) |->
        IF \E k \in 1..Len(targets) : targets[k] = s[i].id
        THEN LET k == CHOOSE k \in 1..Len(targets) : targets[k] = s[i].id
                 dts == Delim(ts, k - 1)
             IN IF s[i].v # Nil THEN [s[i] EXCEPT !.v = Nil, !.t = dts]
                ELSE IF TsLess(s[i].t, dts) THEN [s[i] EXCEPT !.t = dts] ELSE s[i]
        ELSE s[i]]
\* updateRemote: last writer wins per element; a tombstone is not revived
LUpdate(s, targets, ts, vals) ==
    [i \in 1..Len(s) |->
        IF \E k \in 1..Len(targets) : targets[k] = s[i].id
        THEN LET k == CHOOSE k \in 1..Len(targets) : targets[k] = s[i].id
                 uts == Delim(ts, k - 1)
             IN IF s[i].v # Nil /\ TsLess(s[i].t, uts) THEN [s[i] EXCEPT !.v = vals[k], !.t = uts] ELSE s[i]
        ELSE s[i]]
LTargets(s, pos, n) == [k \in 1..n |-> s[LLiveIdx(s, pos + k)].id]
LLocal(s, call, ts) ==
    CASE call.op = "insert" ->
            LET i == LLiveIdx(s, call.pos)
                target == IF i = 0 THEN HeadTs ELSE s[i].id
            IN [s |-> InsertAt(s, i, LNewNodes(ts, call.vals)), ret |-> call.vals,
                body |-> [type |-> "insert", target |-> target, vals |-> call.vals]]
      [] call.op = "delete" ->
            LET targets == LTargets(s, call.pos, call.n)
            IN [s |-> LDelete(s, targets, ts), ret |-> SubSeq(LView(s), call.pos + 1, call.pos + call.n),
                body |-> [type |-> "delete", targets |-> targets]]
      [] call.op = "update" ->
            LET targets == LTargets(s, call.pos, Len(call.vals))
            IN [s |-> LUpdate(s, targets, ts, call.vals),
                ret |-> SubSeq(LView(s), call.pos + 1, call.pos + Len(call.vals)),
                body |-> [type |-> "update", targets |-> targets, vals |-> call.vals]]
LRemote(s, op) == CASE op.type = "insert" -> LInsert(s, op.target, op.ts, op.vals)
                    [] op.type = "delete" -> LDelete(s, op.targets, op.ts)
                    [] op.type = "update" -> LUpdate(s, op.targets, op.ts, op.vals)
\* the plain structure: a sequence
LPlainInit == <<>>
LPlain(p, call) ==
    CASE call.op = "insert" -> [p |-> InsertAt(p, call.pos, call.vals), ret |-> call.vals]
      [] call.op = "delete" -> [p |-> SubSeq(p, 1, call.pos) \o SubSeq(p, call.pos + call.n + 1, Len(p)),
                                ret |-> SubSeq(p, call.pos + 1, call.pos + call.n)]
      [] call.op = "update" -> [p |-> [i \in 1..Len(p) |-> IF i > call.pos /\ i <= call.pos + Len(call.vals)
                                                           THEN call.vals[i - call.pos] ELSE p[i]],
                                ret |-> SubSeq(p, call.pos + 1, call.pos + Len(call.vals))]
\* reference outcome of a set of list operations: elements hang below their anchor, siblings newest
\* first, preorder; an element is gone iff some delete targets it; else it shows its newest update.
LRefElems(S) == UNION {{[id |-> Delim(o.ts, k - 1),
                         anchor |-> IF k = 1 THEN o.target ELSE Delim(o.ts, k - 2),
                         v |-> o.vals[k]] : k \in 1..Len(o.vals)} : o \in {x \in S : x.type = "insert"}}
LRefDeleted(S, id) == \E o \in S : o.type = "delete" /\ \E k \in 1..Len(o.targets) : o.targets[k] = id
LRefUpds(S, id) == UNION {{[ts |-> o.ts, v |-> o.vals[k]] : k \in {j \in 1..Len(o.targets) : o.targets[j] = id}}
                          : o \in {x \in S : x.type = "update"}}
LRefValue(S, e) == LET us == LRefUpds(S, e.id) IN
                   IF us = {} THEN e.v ELSE Greatest(us, LAMBDA a, b : TsLess(a.ts, b.ts)).v
RECURSIVE LSortDesc(_)
LSortDesc(E) == IF E = {} THEN <<>>
                ELSE LET m == Greatest(E, LAMBDA a, b : TsLess(a.id, b.id)) IN <<m>> \o LSortDesc(E \ {m})
RECURSIVE LPre(_, _), LPreSeq(_, _)
LPre(S, a) == LPreSeq(S, LSortDesc({e \in LRefElems(S) : e.anchor = a}))
LPreSeq(S, es) == IF es = <<>> THEN <<>> ELSE <<Head(es)>> \o LPre(S, Head(es).id) \o LPreSeq(S, Tail(es))
LRef(S) == LET live == SelectSeq(LPre(S, HeadTs), LAMBDA e : ~LRefDeleted(S, e.id))
           IN [i \in 1..Len(live) |-> LRefValue(S, live[i])]
====
