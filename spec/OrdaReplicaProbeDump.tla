---- MODULE OrdaReplicaProbeDump ----
EXTENDS OrdaReplicaProbe, Json, TLCExt
\* only behaviours that end in a probe are exported; the observation is not needed
EdgeDump == (act'.name = "patchProbe") => PrintT("EDGE " \o ToJson([hist |-> hist', obs |-> [nlog |-> Len(log')]]))
====
