---- MODULE OrdaTxLock ----
(***************************************************************************)
(* Goroutines calling one client datatype concurrently (C20):              *)
(* client/pkg/internal/datatypes/transaction.go at the granularity of the  *)
(* gate points compiled in with -tags verif (verifgate.At):                *)
(*                                                                         *)
(*   check     BeginTransaction, before  if isLocked && its.txCtx == txCtx *)
(*   lock      setTransactionContextAndLock, before mutex.Lock()           *)
(*   locked    after mutex.Lock(), before isLocked = true                  *)
(*   flagged   after isLocked = true, before the context is returned and   *)
(*             stored in its.txCtx                                         *)
(*   end       EndTransaction, before  if txCtx == its.txCtx               *)
(*   unlocked  unlock(), between mutex.Unlock() and isLocked = false       *)
(*                                                                         *)
(* A step of process p is "release p from the gate it is parked at and let *)
(* it run to its next gate (or to the end of its call)"; everything the    *)
(* code does in between is one atomic step here, exactly what a scheduler  *)
(* that only controls the gates can produce - and the replay does produce. *)
(*                                                                         *)
(* Kinds of calls:  "op"  a single operation (SentenceInTx with nil ctx),  *)
(* "tx" a user transaction of TxLen operations (DoTransaction; inside it   *)
(* every operation passes check and end with the transaction's context),   *)
(* "remote" the application of one remote operation (same path, not queued *)
(* for push).                                                              *)
(*                                                                         *)
(* A user transaction whose function returns an error ("txfail") is rolled *)
(* back by its EndTransaction: success is cleared before the "end" gate,   *)
(* and whoever ends the transaction reads it.                              *)
(*                                                                         *)
(* Guarded = TRUE is the code as repaired (the re-entrancy test requires a *)
(* non-nil context, and unlock() clears isLocked before it releases the    *)
(* mutex); Guarded = FALSE is the code as it was, kept so that TLC can     *)
(* exhibit the schedules that made the repair necessary.                   *)
(***************************************************************************)
EXTENDS Integers, Sequences, FiniteSets, TLC

CONSTANTS Procs,      \* process ids
          KindOf,     \* [p \in Procs |-> "op" | "tx" | "remote"]  (given as three sets below)
          OpProcs, TxProcs, RemoteProcs,
          FailProcs,  \* the user transactions of these processes (a subset of TxProcs) fail: their function returns an error
          Calls,      \* calls per process
          TxLen,      \* operations in a user transaction
          Guarded

VARIABLES pc,        \* pc[p]: the gate p is parked at: "idle", "check", "lock", "locked", "flagged", "end", "unlocked", "done", "crashed"
          mutex,     \* 0 or the process holding the datatype's mutex
          isLocked, txCtx,   \* fields of TransactionDatatype; txCtx: 0 (nil) or the id of a context
          mine,      \* mine[p]: the context BeginTransaction returned to p's current (outer) call; 0 = nil
          arg,       \* arg[p]: the context p passes to BeginTransaction at its current check (0 = nil)
          inner,     \* inner[p]: how many operations of its transaction body p has done; -1 outside a body
          ncall,     \* ncall[p]: calls finished
          val,       \* the counter's value
          seq,       \* operation sequence counter
          opbuf,     \* txCtx.opBuffer of the context currently installed (operations of the open transaction)
          buffer,    \* operations queued for push (localBuffer), as <<p, call, k>>
          nctx,      \* context ids handed out
          success,   \* TransactionDatatype.success: cleared by SetTransactionFail when a transaction's function returns an
                     \* error, read by EndTransaction (commit or roll back), set again by unlock()
          act, hist
vars == <<pc, mutex, isLocked, txCtx, mine, arg, inner, ncall, val, seq, opbuf, buffer, nctx, success, act, hist>>

Kind(p) == IF p \in TxProcs THEN "tx" ELSE IF p \in RemoteProcs THEN "remote" ELSE "op"

Init == /\ pc = [p \in Procs |-> "idle"] /\ mutex = 0 /\ isLocked = FALSE /\ txCtx = 0
        /\ mine = [p \in Procs |-> 0] /\ arg = [p \in Procs |-> 0] /\ inner = [p \in Procs |-> -1]
        /\ ncall = [p \in Procs |-> 0] /\ val = 0 /\ seq = 0 /\ opbuf = <<>> /\ buffer = <<>> /\ nctx = 0 /\ success = TRUE
        /\ act = [name |-> "init"] /\ hist = <<>>
Record(p, from, to) == act' = [name |-> "step", p |-> p, from |-> from, to |-> to] /\ hist' = Append(hist, [p |-> p, from |-> from, to |-> to])
Goto(p, l) == pc' = [pc EXCEPT ![p] = l]

\* start a call: the goroutine runs to the first gate
Start(p) == /\ pc[p] = "idle" /\ ncall[p] < Calls
            /\ Goto(p, "check") /\ arg' = [arg EXCEPT ![p] = 0]
            /\ Record(p, "idle", "check")
            /\ UNCHANGED <<mutex, isLocked, txCtx, mine, inner, ncall, val, seq, opbuf, buffer, nctx>>

\* one operation's effect on the datatype (executeLocalBase / executeRemoteBase + appendOperation);
\* appendOperation dereferences its.txCtx: a nil context is a panic
Effect(p) == IF txCtx = 0 THEN [crash |-> TRUE]
             ELSE [crash |-> FALSE]

\* the re-entrancy test of BeginTransaction
Reentrant(p) == isLocked /\ txCtx = arg[p] /\ (Guarded => arg[p] # 0)

\* released at "check": the test; on the re-entrant path the operation is executed at once and the
\* goroutine reaches "end"; otherwise it goes for the lock
Check(p) ==
    /\ pc[p] = "check"
    /\ IF Reentrant(p)
       THEN \* inside a transaction (or, unguarded, mistaking someone else's lock for one)
            IF txCtx = 0
            THEN /\ Goto(p, "crashed") /\ Record(p, "check", "crashed")
                 /\ UNCHANGED <<mutex, isLocked, txCtx, mine, arg, inner, ncall, val, seq, opbuf, buffer, nctx>>
            ELSE /\ val' = val + 1
                 /\ seq' = IF Kind(p) = "remote" THEN seq ELSE seq + 1
                 /\ opbuf' = Append(opbuf, <<p, ncall[p] + 1, IF inner[p] >= 0 THEN inner[p] + 1 ELSE 0>>)
                 /\ Goto(p, "end") /\ Record(p, "check", "end")
                 /\ UNCHANGED <<mutex, isLocked, txCtx, mine, arg, inner, ncall, buffer, nctx>>
       ELSE /\ Goto(p, "lock") /\ Record(p, "check", "lock")
            /\ UNCHANGED <<mutex, isLocked, txCtx, mine, arg, inner, ncall, val, seq, opbuf, buffer, nctx>>

\* released at "lock": mutex.Lock() - the goroutine only arrives at "locked" once the mutex is free
Lock(p) == /\ pc[p] = "lock" /\ mutex = 0
           /\ mutex' = p /\ Goto(p, "locked") /\ Record(p, "lock", "locked")
           /\ UNCHANGED <<isLocked, txCtx, mine, arg, inner, ncall, val, seq, opbuf, buffer, nctx>>

Locked(p) == /\ pc[p] = "locked"
             /\ isLocked' = TRUE /\ Goto(p, "flagged") /\ Record(p, "locked", "flagged")
             /\ UNCHANGED <<mutex, txCtx, mine, arg, inner, ncall, val, seq, opbuf, buffer, nctx>>

\* released at "flagged": the new context is installed; a single operation (or remote one) executes and
\* reaches "end"; a user transaction issues its header operation and enters its body: the first inner
\* operation parks at "check" with the transaction's context as argument
Flagged(p) ==
    /\ pc[p] = "flagged"
    /\ nctx' = nctx + 1 /\ txCtx' = nctx + 1 /\ mine' = [mine EXCEPT ![p] = nctx + 1]
    /\ IF Kind(p) = "tx"
       THEN /\ seq' = seq + 1                                   \* the transaction header consumes an id
            /\ opbuf' = <<<<p, ncall[p] + 1, 0>>>>
            /\ inner' = [inner EXCEPT ![p] = 0]
            /\ arg' = [arg EXCEPT ![p] = nctx + 1]
            /\ Goto(p, "check") /\ Record(p, "flagged", "check")
            /\ UNCHANGED <<val>>
       ELSE /\ val' = val + 1
            /\ seq' = IF Kind(p) = "remote" THEN seq ELSE seq + 1
            /\ opbuf' = <<<<p, ncall[p] + 1, 0>>>>
            /\ Goto(p, "end") /\ Record(p, "flagged", "end")
            /\ UNCHANGED <<inner, arg>>
    /\ UNCHANGED <<mutex, isLocked, ncall, buffer>>

\* released at "end": EndTransaction(txCtx of this call)
\*  - an inner operation of a transaction body passed nil: nothing happens; the body goes on with the next
\*    operation (parks at "check") or, after the last one, the transaction itself parks at "end"
\*  - the outer call: if its context is the installed one, the operations are queued for push (local calls)
\*    and unlock() runs up to the gate between mutex.Unlock() and isLocked = false
Finish(p) == /\ ncall' = [ncall EXCEPT ![p] = @ + 1] /\ mine' = [mine EXCEPT ![p] = 0] /\ inner' = [inner EXCEPT ![p] = -1]
End(p) ==
    /\ pc[p] = "end"
    /\ IF inner[p] >= 0 /\ inner[p] < TxLen
       THEN \* end of an inner operation
            /\ inner' = [inner EXCEPT ![p] = @ + 1]
            /\ IF inner[p] + 1 < TxLen
               THEN Goto(p, "check") /\ Record(p, "end", "check")
               ELSE Goto(p, "end") /\ Record(p, "end", "end")      \* the closure returned: DoTransaction's EndTransaction
            \* a failing function: SetTransactionFail runs before DoTransaction's deferred EndTransaction
            /\ success' = IF inner[p] + 1 = TxLen /\ p \in FailProcs THEN FALSE ELSE success
            /\ UNCHANGED <<mutex, isLocked, txCtx, mine, arg, ncall, val, seq, opbuf, buffer, nctx>>
       ELSE IF mine[p] = txCtx
            THEN \* (unguarded, mine = 0 = txCtx can hold for a call that never took the lock)
                 \* committed: the operations are queued for push; failed: Rollback() - the snapshot and the operation id
                 \* go back to what they were before the transaction (its header and its operations), nothing is queued
                 /\ buffer' = IF Kind(p) = "remote" \/ ~success THEN buffer ELSE buffer \o opbuf
                 /\ val' = IF success THEN val ELSE val - (Len(opbuf) - 1)
                 /\ seq' = IF success THEN seq ELSE seq - Len(opbuf)
                 /\ opbuf' = <<>>
                 /\ IF isLocked
                    THEN \* unlock(): as repaired, the flag is cleared before the mutex is released
                         /\ txCtx' = 0 /\ mutex' = 0 /\ Goto(p, "unlocked") /\ Record(p, "end", "unlocked")
                         /\ isLocked' = IF Guarded THEN FALSE ELSE isLocked
                         /\ success' = TRUE
                         /\ UNCHANGED <<mine, inner, ncall>>
                    ELSE /\ Goto(p, "idle") /\ Record(p, "end", "idle") /\ Finish(p)
                         /\ UNCHANGED <<txCtx, mutex, isLocked, success>>
                 /\ UNCHANGED <<arg, nctx>>
            ELSE /\ Goto(p, "idle") /\ Record(p, "end", "idle") /\ Finish(p)
                 /\ UNCHANGED <<mutex, isLocked, txCtx, arg, val, seq, opbuf, buffer, nctx, success>>

Unlocked(p) == /\ pc[p] = "unlocked"
               /\ isLocked' = (IF Guarded THEN isLocked ELSE FALSE)      \* as it was: cleared only now, after the mutex was released
               /\ Goto(p, "idle") /\ Record(p, "unlocked", "idle") /\ Finish(p)
               /\ UNCHANGED <<mutex, txCtx, arg, val, seq, opbuf, buffer, nctx>>

Next == \E p \in Procs : \/ ((Start(p) \/ Check(p) \/ Lock(p) \/ Locked(p) \/ Flagged(p) \/ Unlocked(p)) /\ UNCHANGED success)
                         \/ End(p)
Spec == Init /\ [][Next]_vars

---------------------------------------------------------------------------
AllDone == \A p \in Procs : pc[p] = "idle" /\ ncall[p] = Calls
NoCrash == \A p \in Procs : pc[p] # "crashed"
\* a goroutine that believes it is inside the critical section holds the mutex, or is an inner operation of
\* the transaction that holds it
Critical(p) == pc[p] \in {"locked", "flagged", "end"} \/ (pc[p] = "check" /\ inner[p] >= 0)
MutualExclusion == \A p, q \in Procs : (p # q /\ Critical(p) /\ Critical(q)) => FALSE
\* the mutex is only ever held by a goroutine that is still inside its call (else nobody will release it)
NoLostUnlock == mutex # 0 => pc[mutex] \in {"locked", "flagged", "end", "check"}
\* at the end: no update lost, every local operation queued exactly once, transactions contiguous
Expected == LET n(p) == IF p \in FailProcs THEN 0 ELSE IF Kind(p) = "tx" THEN Calls * TxLen ELSE Calls IN
            [total |-> LET RECURSIVE S(_) S(Q) == IF Q = {} THEN 0 ELSE LET p == CHOOSE p \in Q : TRUE IN n(p) + S(Q \ {p}) IN S(Procs)]
NoLostUpdate == AllDone => val = Expected.total
QueuedOnce == AllDone => /\ \A i, j \in 1..Len(buffer) : i # j => buffer[i] # buffer[j]
                         /\ \A p \in Procs \ RemoteProcs : \A c \in 1..Calls :
                              LET mineOps == SelectSeq(buffer, LAMBDA o : o[1] = p /\ o[2] = c) IN
                              Len(mineOps) = (IF p \in FailProcs THEN 0 ELSE IF Kind(p) = "tx" THEN TxLen + 1 ELSE 1)
\* a transaction's unit is contiguous in the queue: no other goroutine's operation in between
TxContiguous == \A i, j \in 1..Len(buffer) : (i < j /\ buffer[i][1] = buffer[j][1] /\ buffer[i][2] = buffer[j][2]) =>
                    \A k \in i..j : buffer[k][1] = buffer[i][1] /\ buffer[k][2] = buffer[i][2]
StateView == <<pc, mutex, isLocked, txCtx, mine, arg, inner, ncall, val, seq, opbuf, buffer, nctx, success>>
====
