---- MODULE OrdaSyncFault ----
(***************************************************************************)
(* OrdaSync plus storage faults (C08): while a request is being served,    *)
(* the k-th database command of its handler fails (mode "error": the       *)
(* command returns an error and the handler takes its error path) or is    *)
(* the last thing that happens before the server dies (mode "dead": no     *)
(* answer reaches the client; the server is restarted on the same store).  *)
(*                                                                         *)
(* Intended effect, which is what C08 demands: a failed run is atomic -     *)
(* nothing of it is stored, the client is told (an error, if anything), it *)
(* keeps its operations and its checkpoint, and a later retry is an        *)
(* ordinary request.  Cmds(r) lists the database commands a handler run    *)
(* issues for request r in the current state, as observed on the real      *)
(* server (DESIGN.md appendix B); the replay arms the fake MongoDB to fail *)
(* exactly the k-th of them, so the list itself is checked against the     *)
(* code as well.                                                           *)
(***************************************************************************)
EXTENDS OrdaSync
CONSTANTS MaxFaults
VARIABLES nfault,
          lastf     \* the last fault: <<command, mode, operations already inserted>>. In the model a failed run is atomic,
                    \* so the state after it does not depend on where it failed; the code's state may. Keeping the
                    \* placement in the state (and in the VIEW) makes TLC continue from every placement separately, so
                    \* that retries, later syncs and resets are replayed after each of them.
fvars == <<vars, nfault, lastf>>

Cmds(r) ==
    LET c == r.from
        subscribed == dt.exists /\ dt.scp[c] # NoCp
        head == <<"find Collections", "find Clients">>
        byKey == IF r.create \/ r.sub THEN <<"find Datatypes">> ELSE <<>>
        byDuid == IF (r.create \/ r.sub) /\ dt.exists THEN <<>> ELSE <<"find Datatypes">>
        refused == \/ (r.sub /\ ~r.create /\ ~dt.exists)
                   \/ (r.create /\ ~r.sub /\ dt.exists /\ ~subscribed)
        scp0 == IF subscribed THEN dt.scp[c] ELSE [s |-> 0, c |-> 0]
        pushes == IF (r.sub /\ dt.exists /\ (~subscribed \/ dt.duid # r.duid)) THEN <<>> ELSE r.ops
        res == PushOps(oplog, scp0.c, c, pushes)
        ins == IF res.ok /\ Len(res.log) > Len(oplog) THEN <<"insert Operations">> ELSE <<>>
    IN IF refused THEN head \o byKey \o byDuid
       ELSE IF ~res.ok THEN head \o byKey \o byDuid
       ELSE head \o byKey \o byDuid \o <<"find Operations">> \o ins \o <<"update Datatypes">>

ServeFault(r) ==
    /\ r \in reqs /\ nserve[r.id] < MaxServes /\ nfault < MaxFaults
    /\ nserve' = [nserve EXCEPT ![r.id] = @ + 1]
    /\ nfault' = nfault + 1
    /\ \E k \in 1..Len(Cmds(r)), mode \in {"error", "dead"} :
         /\ IF mode = "error"
            THEN Respond(r, [id |-> r.id, n |-> nserve[r.id] + 1, to |-> r.from, duid |-> r.duid, kind |-> "error", code |-> "server",
                             cps |-> 0, cpc |-> 0, ops |-> <<>>, from |-> 1])
            ELSE UNCHANGED <<resps, napply>>
         /\ Record([name |-> "serveFault", id |-> r.id, n |-> nserve[r.id] + 1, c |-> r.from, k |-> k, how |-> mode,
                    m |-> Cmds(r)[k], ncmd |-> Len(Cmds(r)),
                    occ |-> Cardinality({j \in 1..k : Cmds(r)[j] = Cmds(r)[k]}),
                    ins |-> \E j \in 1..(k - 1) : Cmds(r)[j] = "insert Operations"])
         /\ lastf' = <<Cmds(r)[k], mode, \E j \in 1..(k - 1) : Cmds(r)[j] = "insert Operations">>
    /\ UNCHANGED <<cl, dt, oplog, reqs, nsend>>

FNext == \/ (Next /\ UNCHANGED <<nfault, lastf>>)
         \/ \E r \in reqs : ServeFault(r)
FInit == Init /\ nfault = 0 /\ lastf = <<>>
FSpec == FInit /\ [][FNext]_fvars
FStateView == <<StateView, nfault, lastf>>
====
