\* generated by gencfg.py - edit there
SPECIFICATION Spec
CONSTANTS
 Kind = "counter"
 Replicas = {1, 2, 3}
 MaxLocal = 5
 MoreLocal = {}
 MaxBatch = 1
 Keys = {"a"}
 Deltas = {1, 7, 13}
 MaxTx = 2
 MaxBad = 0
 MaxRestore = 2
 MaxBadUnit = 0
 RePut = TRUE
 DocNKeys = 1
 DocShapes = {"p"}
 DocMaxBatch = 1
 SimMode = TRUE
INVARIANT Convergence
INVARIANT RefOutcome
INVARIANT NoDupIds
INVARIANT PresenceExact
INVARIANT SameOrder
INVARIANT SeqGapless
INVARIANT CausalTs
INVARIANT IdsUnique
INVARIANT UnitsWellFormed
INVARIANT PlainRefinement
INVARIANT DocObjRule
INVARIANT StepDump
CHECK_DEADLOCK FALSE
