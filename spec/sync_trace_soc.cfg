\* trace validation of racing SubscribeOrCreate entries (concdriver -entry): every client enters by SubscribeOrCreate
SPECIFICATION TraceSpec
CONSTANTS
 Clients = {1, 2, 3, 4}
 Creators = {}
 Subscribers = {}
 OtherType = {}
 MaxPre = 0
 MaxOps = 50
 MaxSends = 100000
 MaxServes = 1
 MaxApplies = 1
 Faults = TRUE
 KeepHist = FALSE
INVARIANT NotAccepted
CONSTRAINT Progress
INVARIANT LogNoRepeats
INVARIANT LogEndRecorded
INVARIANT PerClientOrder
INVARIANT CpWithinLog
VIEW TraceView
CHECK_DEADLOCK FALSE
