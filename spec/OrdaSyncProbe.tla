---- MODULE OrdaSyncProbe ----
(***************************************************************************)
(* OrdaSync plus one PROBE at the end of a behaviour (C16, C17): from any  *)
(* reachable state a client (or a client of another collection) issues one *)
(* structurally valid but unusual request - a mutation m of the request it *)
(* would send now.  The specification deliberately leaves the outcome open *)
(* (the property does not say whether such a request is refused or served):*)
(* the probe changes nothing in the model and ends the behaviour.  What    *)
(* must hold of the real outcome is evaluated by the replay: an answer     *)
(* arrives, nothing crashes or hangs, a refusal changes no stored data, an *)
(* acceptance keeps the log invariants, nothing of another collection is   *)
(* read or written, and client and server stay usable.                     *)
(***************************************************************************)
EXTENDS OrdaSync
CONSTANTS Mutations
VARIABLE probed
pvars == <<vars, probed>>
Probe(c) == /\ ~probed /\ cl[c].state # "closed"
            /\ probed' = TRUE
            /\ \E m \in Mutations : Record([name |-> "probe", c |-> c, m |-> m])
            /\ UNCHANGED <<cl, dt, oplog, reqs, resps, nsend, nserve, napply>>
PNext == \/ (~probed /\ Next /\ UNCHANGED probed)
         \/ \E c \in Clients : Probe(c)
PInit == Init /\ probed = FALSE
PSpec == PInit /\ [][PNext]_pvars
PStateView == <<StateView, probed>>
====
