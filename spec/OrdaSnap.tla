---- MODULE OrdaSnap ----
(***************************************************************************)
(* What the server does after and beside the push-pull exchange (C11, C18, *)
(* C19): the notification, the background snapshot update and the REST     *)
(* patch of a document.                                                    *)
(*                                                                         *)
(* server/service/service_pushpull_datatype.go  finalize: after a push     *)
(*   that stored operations a goroutine publishes one notification and     *)
(*   then runs snapshot.Manager.UpdateSnapshot                             *)
(* server/snapshot/manager.go  UpdateSnapshot, step by database command:   *)
(*   UStart   take the per-key update lock (one updater at a time)         *)
(*   URead    read the latest snapshot, then the operations after it:      *)
(*            the updater now holds the state at version v = end of log    *)
(*   UInsert  insert the snapshot document duid:v (fails if it exists:     *)
(*            the update stops there)                                      *)
(*   UReplace replace the user-visible document with the view at v,        *)
(*            recording _orda_ver_ = v; release the lock                   *)
(* server/service/service_patch_document.go  PatchDocument: rebuild the    *)
(*   latest document, patch it to the target, push the resulting unit as a *)
(*   volatile client (which is a push: notification + snapshot update)     *)
(*                                                                         *)
(* Handlers (Sync, Patch) are atomic here - their interleaving is          *)
(* OrdaSync's and C12's business; what is explored is every position of    *)
(* the updater's steps relative to later pushes, patches and updaters.     *)
(* Datatype contents are not modelled: the replay compares real against    *)
(* real (a stored snapshot imported into a fresh instance against a fresh  *)
(* instance fed the stored log prefix).                                    *)
(***************************************************************************)
EXTENDS Integers, Sequences, FiniteSets, TLC

CONSTANTS Clients,     \* subscribed clients (all of them are subscribed when the behaviour starts)
          MaxLocal,    \* local operations per client
          MaxSyncs,    \* syncs in total
          MaxPatches,  \* REST patches in total (documents only; 0 otherwise)
          MaxUpdaters, \* updaters alive at the same time
          InitSnapshot \* TRUE: the creation push's snapshot update has run; FALSE: it was skipped (no snapshot, no user document)

VARIABLES end,      \* length of the stored log
          pend,     \* pend[c]: local operations of c not yet pushed
          made,     \* made[c]: local operations c has made
          cps,      \* cps[c]: log position c has pulled up to
          ups,      \* sequence of updaters: [phase, v]; phase: "waiting", "started", "read", "inserted", "done", "dup"
          lock,     \* index of the updater holding the update lock, 0 if free
          snaps,    \* versions of the stored snapshot documents
          udoc,     \* version recorded in the user-visible document (0: no document)
          pubs,     \* notifications published so far: [c, end]
          nsync, npatch,
          act, hist
vars == <<end, pend, made, cps, ups, lock, snaps, udoc, pubs, nsync, npatch, act, hist>>

Patcher == 0   \* the administrative patch client

\* the datatype was created by client 1 and everybody is subscribed; the creation push was announced
\* and its snapshot update has run
Init == /\ end = 1                       \* the creation operation of the datatype
        /\ pend = [c \in Clients |-> 0] /\ made = [c \in Clients |-> 0]
        /\ cps = [c \in Clients |-> 1]
        /\ ups = <<>> /\ lock = 0 /\ pubs = <<[c |-> 1, end |-> 1]>>
        /\ snaps = (IF InitSnapshot THEN {1} ELSE {}) /\ udoc = (IF InitSnapshot THEN 1 ELSE 0)
        /\ nsync = 0 /\ npatch = 0
        /\ act = [name |-> "init"] /\ hist = <<>>
Record(a) == act' = a /\ hist' = Append(hist, a)

Alive == Cardinality({i \in 1..Len(ups) : ups[i].phase \in {"waiting", "started", "read", "inserted"}})

Local(c) == /\ made[c] < MaxLocal
            /\ made' = [made EXCEPT ![c] = @ + 1] /\ pend' = [pend EXCEPT ![c] = @ + 1]
            /\ Record([name |-> "local", c |-> c, k |-> made[c] + 1])
            /\ UNCHANGED <<end, cps, ups, lock, snaps, udoc, pubs, nsync, npatch>>

\* a push that stored operations is announced once and spawns one updater
AfterPush(c, n) == IF n > 0
                   THEN /\ pubs' = Append(pubs, [c |-> c, end |-> end + n])
                        /\ ups' = Append(ups, [phase |-> "waiting", v |-> 0])
                   ELSE UNCHANGED <<pubs, ups>>

Sync(c) == /\ nsync < MaxSyncs /\ (pend[c] > 0 => Alive < MaxUpdaters)
           /\ nsync' = nsync + 1
           /\ end' = end + pend[c]
           /\ cps' = [cps EXCEPT ![c] = end + pend[c]]
           /\ AfterPush(c, pend[c])
           /\ pend' = [pend EXCEPT ![c] = 0]
           /\ Record([name |-> "sync", c |-> c, pushed |-> pend[c], pulled |-> end - cps[c], end |-> end + pend[c]])
           /\ UNCHANGED <<made, lock, snaps, udoc, npatch>>

\* REST patch to a target that differs from the current document: one unit of at least one operation
Patch == /\ npatch < MaxPatches /\ Alive < MaxUpdaters
         /\ npatch' = npatch + 1
         /\ \E n \in {1} :                 \* the replay patches to "current document plus one new key": one operation
              /\ end' = end + n
              /\ AfterPush(Patcher, n)
              /\ Record([name |-> "patch", k |-> npatch + 1])
         /\ UNCHANGED <<pend, made, cps, lock, snaps, udoc, nsync>>

UStart(i) == /\ ups[i].phase = "waiting" /\ lock = 0
             /\ \A j \in 1..(i - 1) : ups[j].phase # "waiting"        \* updaters reach the lock in spawn order
             /\ lock' = i /\ ups' = [ups EXCEPT ![i].phase = "started"]
             /\ Record([name |-> "ustart", u |-> i])
             /\ UNCHANGED <<end, pend, made, cps, snaps, udoc, pubs, nsync, npatch>>
URead(i) == /\ ups[i].phase = "started"
            /\ ups' = [ups EXCEPT ![i].phase = "read", ![i].v = end]
            /\ Record([name |-> "uread", u |-> i, v |-> end])
            /\ UNCHANGED <<end, pend, made, cps, lock, snaps, udoc, pubs, nsync, npatch>>
UInsert(i) == /\ ups[i].phase = "read"
              /\ IF ups[i].v \in snaps
                 THEN /\ ups' = [ups EXCEPT ![i].phase = "dup"] /\ lock' = 0 /\ UNCHANGED snaps
                 ELSE /\ ups' = [ups EXCEPT ![i].phase = "inserted"] /\ snaps' = snaps \cup {ups[i].v} /\ UNCHANGED lock
              /\ Record([name |-> "uinsert", u |-> i, v |-> ups[i].v, dup |-> ups[i].v \in snaps])
              /\ UNCHANGED <<end, pend, made, cps, udoc, pubs, nsync, npatch>>
UReplace(i) == /\ ups[i].phase = "inserted"
               /\ udoc' = ups[i].v /\ lock' = 0 /\ ups' = [ups EXCEPT ![i].phase = "done"]
               /\ Record([name |-> "ureplace", u |-> i, v |-> ups[i].v])
               /\ UNCHANGED <<end, pend, made, cps, snaps, pubs, nsync, npatch>>

Next == \/ \E c \in Clients : Local(c) \/ Sync(c)
        \/ Patch
        \/ \E i \in 1..Len(ups) : UStart(i) \/ URead(i) \/ UInsert(i) \/ UReplace(i)
Spec == Init /\ [][Next]_vars

---------------------------------------------------------------------------
\* C11: a stored snapshot's version never exceeds the log; the user document's version is one of the
\* stored snapshots' and never decreases
SnapshotWithinLog == \A v \in snaps : v <= end
UserDocIsSnapshot == udoc = 0 \/ udoc \in snaps
UserDocMonotone == [][udoc' >= udoc]_vars
OneUpdaterAtATime == Cardinality({i \in 1..Len(ups) : ups[i].phase \in {"started", "read", "inserted"}}) <= 1
\* C18: one notification per push that stored operations, carrying the pusher and the new end of the log
PubsMonotone == \A i, j \in 1..Len(pubs) : i < j => pubs[i].end < pubs[j].end
PubsWithinLog == \A i \in 1..Len(pubs) : pubs[i].end <= end
StateView == <<end, pend, made, cps, ups, lock, snaps, udoc, pubs, nsync, npatch>>
====
