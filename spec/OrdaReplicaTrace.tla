---- MODULE OrdaReplicaTrace ----
(***************************************************************************)
(* Trace validation (I->S) of LONG random histories of real replicas        *)
(* against OrdaReplica (C01, C02, C04, C15): a seeded driver performs       *)
(* local calls (batches of up to a dozen elements, so that element          *)
(* identifiers of different widths meet), pushes and deliveries on 2-5 real *)
(* replicas of a Counter, Map or List and records                           *)
(*   local   r call ret view opid   the call as made, what it returned,     *)
(*                                  the replica's view and operation id     *)
(*   push    r n                                                            *)
(*   tx      r calls commit view opid   a user transaction: the calls of its    *)
(*                                  body, committed or aborted (C09)        *)
(*   deliver r n view opid          the next n log entries reached r        *)
(* TLC re-executes every event with the specification's own actions (the    *)
(* kernels of Kernels.tla) and requires the logged view, returned value and *)
(* operation id to be the specification's; all invariants of OrdaReplica    *)
(* (Convergence, RefOutcome, NoDupIds, PresenceExact, SameOrder,            *)
(* SeqGapless, CausalTs, IdsUnique) are evaluated in every state of the     *)
(* history - histories far beyond the bounds TLC can generate itself.       *)
(* Several histories are concatenated, separated by `reset` events.         *)
(***************************************************************************)
EXTENDS OrdaReplica, Json, TLCExt

TheTrace == ndJsonDeserialize("trace.ndjson")
VARIABLE l
tvars == <<vars, l>>
Ev == TheTrace[l]
Is(e) == l <= Len(TheTrace) /\ Ev.event = e
Adv == l' = l + 1

\* what ValidCalls enumerates, as a predicate on a logged call
CallOK(x, c) ==
    CASE Kind = "counter" -> c.op = "inc"
      [] Kind = "map"  -> (c.op = "put" /\ c.k # "") \/ (c.op = "remove" /\ c.k \in MLive(x.snap))
      [] Kind = "list" -> LET sz == LSize(x.snap) IN
                          CASE c.op = "insert" -> c.pos >= 0 /\ c.pos <= sz /\ Len(c.vals) >= 1
                            [] c.op = "delete" -> c.n >= 1 /\ c.pos >= 0 /\ c.pos + c.n <= sz
                            [] c.op = "update" -> Len(c.vals) >= 1 /\ c.pos >= 0 /\ c.pos + Len(c.vals) <= sz
                            [] OTHER -> FALSE
      [] Kind = "doc"  -> /\ \E y \in DContainers(x.snap) : y.path = c.path
                          /\ LET node == x.snap[DResolve(x.snap, c.path)]
                                 sz == Len(DLiveItems(x.snap, node))
                             IN CASE c.op = "put" -> node.kind = "O" /\ c.k \in {"x", "y"}
                                  [] c.op = "rmv" -> node.kind = "O" /\ c.k \in DOMAIN node.m /\ ~DIsTomb(x.snap[node.m[c.k]])
                                  [] c.op = "ins" -> node.kind = "A" /\ c.pos >= 0 /\ c.pos <= sz /\ Len(c.vals) >= 1
                                  [] c.op = "del" -> node.kind = "A" /\ c.n >= 1 /\ c.pos >= 0 /\ c.pos + c.n <= sz
                                  [] c.op = "upd" -> node.kind = "A" /\ Len(c.vals) >= 1 /\ c.pos >= 0 /\ c.pos + Len(c.vals) <= sz
                                  [] OTHER -> FALSE
      [] OTHER -> FALSE

TLocal == /\ Is("local") /\ Adv
          /\ LET r == Ev.r
                 res == Step(r, st[r], Ev.call)
             IN /\ CallOK(st[r], Ev.call)
                /\ st' = [st EXCEPT ![r] = res.x]
                /\ outbox' = [outbox EXCEPT ![r] = Append(@, res.op)]
                \* the projection the real replica showed after the call
                /\ KView(res.x.snap) = Ev.view
                /\ res.x.l = Ev.opid[1] /\ res.x.s = Ev.opid[2]
                /\ (Kind = "list" => KSize(res.x.snap) = Ev.size)
                /\ (Kind = "map" => KSize(res.x.snap) = Ev.size)
                /\ act' = [name |-> "local", r |-> r] /\ hist' = hist
          /\ UNCHANGED <<log, pulled, plain, nres, nbad>>
\* the body of a transaction: the logged calls, one after the other, each valid where it is made
RECURSIVE RunCalls(_, _, _)
RunCalls(r, x, calls) ==
    IF calls = <<>> THEN [x |-> x, ops |-> <<>>, ok |-> TRUE]
    ELSE IF ~CallOK(x, Head(calls)) THEN [x |-> x, ops |-> <<>>, ok |-> FALSE]
    ELSE LET res == Step(r, x, Head(calls))
             rest == RunCalls(r, res.x, Tail(calls))
         IN [x |-> rest.x, ops |-> <<res.op>> \o rest.ops, ok |-> rest.ok]
TTx == /\ Is("tx") /\ Adv
       /\ LET r == Ev.r
              x0 == st[r]
              x1 == [x0 EXCEPT !.l = @ + 1, !.s = @ + 1]          \* the header consumes an operation id
              run == RunCalls(r, x1, Ev.calls)
              header == [type |-> "tx", ts |-> <<x0.l + 1, r, 0>>, seq |-> x0.s + 1, n |-> Len(run.ops) + 1]
              nx == IF Ev.commit THEN run.x ELSE x0                  \* abort: state, clock and sequence number as before
          IN /\ run.ok
             /\ st' = [st EXCEPT ![r] = nx]
             /\ outbox' = IF Ev.commit THEN [outbox EXCEPT ![r] = @ \o <<header>> \o run.ops] ELSE outbox
             /\ KView(nx.snap) = Ev.view
             /\ nx.l = Ev.opid[1] /\ nx.s = Ev.opid[2]
             /\ Ev.npend = Len(outbox'[r]) + Cardinality({i \in 1..Len(log) : log[i].from = r})   \* nothing else was queued
       /\ act' = [name |-> "tx", r |-> Ev.r] /\ hist' = hist
       /\ UNCHANGED <<log, pulled, plain, nres, nbad>>
TPush == /\ Is("push") /\ Adv
         /\ outbox[Ev.r] # <<>> /\ Len(outbox[Ev.r]) = Ev.n
         /\ log' = log \o [i \in 1..Len(outbox[Ev.r]) |-> [from |-> Ev.r, op |-> outbox[Ev.r][i]]]
         /\ outbox' = [outbox EXCEPT ![Ev.r] = <<>>]
         /\ act' = [name |-> "push", r |-> Ev.r] /\ hist' = hist
         /\ UNCHANGED <<st, pulled, plain, nres, nbad>>
TDeliver == /\ Is("deliver") /\ Adv
            /\ pulled[Ev.r] < Len(log)
            /\ LET r == Ev.r
                   i == pulled[r] + 1
                   own == log[i].from = r
                   unit == UnitOps(i)
                   nx == IF own THEN st[r] ELSE ApplyOps(st[r], Executed(unit))
               IN /\ Len(unit) = Ev.n
                  /\ st' = [st EXCEPT ![r] = nx]
                  /\ pulled' = [pulled EXCEPT ![r] = @ + Len(unit)]
                  /\ KView(nx.snap) = Ev.view
                  /\ nx.l = Ev.opid[1] /\ nx.s = Ev.opid[2]
            /\ act' = [name |-> "deliver", r |-> Ev.r] /\ hist' = hist
            /\ UNCHANGED <<outbox, log, plain, nres, nbad>>
TReset == /\ Is("reset") /\ Adv
          /\ st' = [r \in Replicas |-> [snap |-> KInit, l |-> 1, s |-> 1, n |-> 0, b |-> 0]]
          /\ outbox' = [r \in Replicas |-> <<>>] /\ log' = <<>> /\ pulled' = [r \in Replicas |-> 0]
          /\ act' = [name |-> "reset"] /\ hist' = hist
          /\ UNCHANGED <<plain, nres, nbad>>

TraceInit == Init /\ l = 1 /\ TLCSet(1, 0)
TraceNext == TLocal \/ TTx \/ TPush \/ TDeliver \/ TReset
TraceSpec == TraceInit /\ [][TraceNext]_tvars
NotAccepted == l <= Len(TheTrace)
Progress == IF l > TLCGet(1) THEN TLCSet(1, l) /\ PrintT(<<"HW", l>>) ELSE TRUE
====
