\* generated by genmulti.py - edit there
SPECIFICATION Spec
CONSTANTS
 Clients = {1, 2}
 Keys = {1, 2}
 MaxOps = 1
 MaxSends = 4
INVARIANT LogNoRepeats
INVARIANT PerClientOrder
INVARIANT CpWithinLog
INVARIANT AppliedExactlyOnce
INVARIANT AppliedInLogOrder
INVARIANT QuiescentAgreement
INVARIANT KeysSeparate
INVARIANT OneDatatypePerKey
PROPERTY CpMonotone
PROPERTY FrameCondition
VIEW StateView
CHECK_DEADLOCK FALSE
