---- MODULE OrdaTxLockDump ----
EXTENDS OrdaTxLock, Json, TLCExt
Obs == [val |-> val, buffer |-> buffer, done |-> AllDone, pc |-> pc, ncall |-> ncall]
EdgeDump == PrintT("EDGE " \o ToJson([hist |-> hist', obs |-> Obs']))
StepDump == PrintT("STEP " \o ToJson([t |-> TLCGet("stats").traces, l |-> TLCGet("level"), act |-> act,
                                      pact |-> IF Len(hist) >= 1 THEN [name |-> "step", p |-> hist[Len(hist)].p, from |-> hist[Len(hist)].from, to |-> hist[Len(hist)].to] ELSE [name |-> "init"], obs |-> Obs]))
\* complete schedules only: one line per terminal state (all calls finished, or a crash / stuck state)
FinalDump == (AllDone' \/ \E p \in Procs : pc'[p] = "crashed") => PrintT("EDGE " \o ToJson([hist |-> hist', obs |-> Obs']))
====
