\* trace validation of long random replica histories (see OrdaReplicaTrace.tla); written by hand, not by gencfg.py
SPECIFICATION TraceSpec
CONSTANTS
 Kind = "doc"
 Replicas = {1, 2, 3, 4, 5}
 MaxLocal = 100000
 MoreLocal = {}
 MaxBatch = 20
 Keys = {"a", "b", "c"}
 Deltas = {1}
 MaxTx = 0
 MaxBad = 0
 MaxRestore = 0
 MaxBadUnit = 0
 RePut = FALSE
 DocNKeys = 2
 DocShapes = {"p"}
 DocMaxBatch = 1
 SimMode = FALSE
INVARIANT NotAccepted
CONSTRAINT Progress
INVARIANT Convergence
INVARIANT RefOutcome
INVARIANT NoDupIds
INVARIANT PresenceExact
INVARIANT SameOrderSeq
INVARIANT SeqGapless
INVARIANT CausalTs
INVARIANT IdsUnique
INVARIANT DocObjRule
INVARIANT UnitsWellFormed
CHECK_DEADLOCK FALSE
