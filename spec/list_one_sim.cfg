\* generated by gencfg.py - edit there
SPECIFICATION Spec
CONSTANTS
 Kind = "list"
 Replicas = {1}
 MaxLocal = 30
 MoreLocal = {}
 MaxBatch = 4
 Keys = {"a"}
 Deltas = {1}
 MaxTx = 0
 MaxBad = 10
 MaxRestore = 0
 MaxBadUnit = 0
 RePut = TRUE
 DocNKeys = 1
 DocShapes = {"p"}
 DocMaxBatch = 1
 SimMode = TRUE
INVARIANT PlainRefinement
INVARIANT NoDupIds
INVARIANT SeqGapless
INVARIANT CausalTs
INVARIANT StepDump
CHECK_DEADLOCK FALSE
