---- MODULE OrdaRealtimeDump ----
(* Behaviour export of OrdaRealtime for the S->I replay on real REALTIME clients, the real server behind *)
(* real gRPC, and a broker that holds notifications until the replay lets them through.                 *)
EXTENDS OrdaRealtime, Json, TLCExt
SetToSeqBy(S, key(_)) == LET RECURSIVE F(_) F(T) == IF T = {} THEN <<>> ELSE LET m == CHOOSE x \in T : \A y \in T : key(x) <= key(y) IN <<m>> \o F(T \ {m}) IN F(S)
Obs == [cp |-> cp, made |-> made, applied |-> applied, log |-> log, scp |-> scp,
        reqs |-> SetToSeqBy({ReqOut(r) : r \in reqs}, LAMBDA r : r.id),
        resps |-> SetToSeqBy({[id |-> p.id, c |-> p.c, k |-> p.k, cps |-> p.cps, cpc |-> p.cpc, nops |-> Len(p.ops)] : p \in resps}, LAMBDA p : p.id),
        held |-> held, nq |-> nq, sema |-> sema, loop |-> loop, waiters |-> waiters, settled |-> Settled, idle |-> Idle]
EdgeDump == PrintT("EDGE " \o ToJson([hist |-> hist', obs |-> Obs']))
StepDump == PrintT("STEP " \o ToJson([t |-> TLCGet("stats").traces, l |-> TLCGet("level"), act |-> act,
                                      pact |-> IF Len(hist) >= 2 THEN hist[Len(hist) - 1] ELSE [name |-> "init"], obs |-> Obs]))
====
