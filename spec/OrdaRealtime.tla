---- MODULE OrdaRealtime ----
(***************************************************************************)
(* Clients in REALTIME mode (C18, second half): after their first sync     *)
(* they only perform local operations; pushes are started by the library   *)
(* itself and pulls by the notifications of the server.                    *)
(*                                                                         *)
(* client/pkg/internal/managers/datatype.go                                *)
(*   DeliverTransaction  after every local transaction a goroutine waits   *)
(*       for the client's one-slot semaphore (FIFO), syncs that datatype   *)
(*       if it still has something to push, releases the semaphore and     *)
(*       looks again whether something is left to push (as it was, Queued  *)
(*       = FALSE: the goroutine gave up when the semaphore was taken)      *)
(*   ReceiveNotification called by the notification loop (one at a time):  *)
(*       drops the client's own notifications, drops what the checkpoint   *)
(*       already covers (NeedPull), else syncs that datatype - WITHOUT the *)
(*       semaphore, so it can overlap a push of the same client            *)
(* client/pkg/internal/managers/notify.go   one loop per client, fed in    *)
(*       arrival order through an unbuffered channel                       *)
(* server  finalize(): a push that stored operations publishes one         *)
(*       notification <<pusher, datatype, new end>> to every subscriber of *)
(*       the topic (the pusher included), asynchronously to the response   *)
(*                                                                         *)
(* Granularity: exactly the points an outside scheduler controls, because  *)
(* that is what the replay does on the real code -                         *)
(*   Local(c,k)   the user calls an operation                              *)
(*   Serve(r)     a request that reached the server is handled (the        *)
(*                handler itself is OrdaSync's Serve; concurrency of       *)
(*                handlers is C12's business)                              *)
(*   Respond(p)   the response is let through to the client                *)
(*   Notify(c,i)  the broker lets one published notification through to    *)
(*                subscriber c                                             *)
(* Everything the client does in between (the semaphore, NeedPush after    *)
(* release, the notification loop picking its next message) is a           *)
(* deterministic consequence and part of the same step.                    *)
(* Operations are abstracted to identities <<client, key, n>>.             *)
(***************************************************************************)
EXTENDS Integers, Sequences, FiniteSets, TLC

CONSTANTS Clients,     \* client ids 1..N, all subscribed to every key when the behaviour starts
          Keys,        \* datatype keys 1..K (one topic each)
          MaxLocal,    \* local operations per client (over all keys)
          MaxReqs,     \* requests in total (bounds the behaviours TLC generates; liveness configs set it high)
          Queued,      \* TRUE: a delivery that finds the semaphore taken waits for its turn (the code as repaired);
                       \* FALSE: it gives up (as it was: a push of another datatype of the client is lost)
          Hist         \* TRUE: record the behaviour in act/hist (for the replay); FALSE for liveness checking

VARIABLES made,     \* made[c][k]: local operations of c on k
          cp,       \* cp[c][k] = [s, c]: the client's checkpoint
          applied,  \* applied[c][k]: operation identities applied at c, in order
          sema,     \* sema[c]: 0 or the id of the push request that holds the client's semaphore
          waiters,  \* waiters[c]: keys of the deliveries waiting for the semaphore, in arrival order
          loop,     \* loop[c]: 0 (the notification loop is idle) or the id of the request it waits for
          nq,       \* nq[c]: notifications let through to c and not yet looked at by its loop
          reqs,     \* requests that reached the server's port: [id, c, k, cps, cpc, ops, via]
          resps,    \* responses not yet let through: [id, c, k, cps, cpc, ops, from, via]
          log,      \* log[k]: the stored operations of key k
          scp,      \* scp[k][c] = [s, c]: the checkpoint the server recorded for c
          held,     \* held[c]: notifications published and not yet let through to subscriber c
          nreq,
          act, hist
vars == <<made, cp, applied, sema, waiters, loop, nq, reqs, resps, log, scp, held, nreq, act, hist>>

Max(a, b) == IF a > b THEN a ELSE b
SeqToSet(s) == {s[i] : i \in 1..Len(s)}
RECURSIVE SumSeq(_)
SumSeq(s) == IF s = <<>> THEN 0 ELSE Head(s) + SumSeq(Tail(s))
Total(c) == LET RECURSIVE S(_) S(K) == IF K = {} THEN 0 ELSE LET k == CHOOSE k \in K : TRUE IN made[c][k] + S(K \ {k}) IN S(Keys)
Op(c, k, n) == <<c, k, n>>
Record(a) == IF Hist THEN act' = a /\ hist' = Append(hist, a) ELSE UNCHANGED <<act, hist>>

Init == /\ made = [c \in Clients |-> [k \in Keys |-> 0]]
        /\ cp = [c \in Clients |-> [k \in Keys |-> [s |-> 0, c |-> 0]]]
        /\ applied = [c \in Clients |-> [k \in Keys |-> <<>>]]
        /\ sema = [c \in Clients |-> 0] /\ loop = [c \in Clients |-> 0] /\ waiters = [c \in Clients |-> <<>>]
        /\ nq = [c \in Clients |-> <<>>] /\ held = [c \in Clients |-> <<>>]
        /\ reqs = {} /\ resps = {}
        /\ log = [k \in Keys |-> <<>>]
        /\ scp = [k \in Keys |-> [c \in Clients |-> [s |-> 0, c |-> 0]]]
        /\ nreq = 0
        /\ act = [name |-> "init"] /\ hist = <<>>

\* CreatePushPullPack of datatype k at client c, in client state (mk, cpx)
Request(id, c, k, mk, cpx, via) ==
    [id |-> id, c |-> c, k |-> k, cps |-> cpx[c][k].s, cpc |-> mk[c][k],
     ops |-> [i \in 1..(mk[c][k] - cpx[c][k].c) |-> Op(c, k, cpx[c][k].c + i)], via |-> via]
NeedPush(c, k, mk, cpx) == cpx[c][k].c < mk[c][k]
\* what the replay can see of a request when it reaches the server's port
ReqOut(r) == [id |-> r.id, c |-> r.c, k |-> r.k, cps |-> r.cps, cpc |-> r.cpc, nops |-> Len(r.ops), via |-> r.via]

\* ---- the user ----
\* a local operation; the goroutine started by DeliverTransaction gets the semaphore or gives up
Local(c, k) ==
    /\ Total(c) < MaxLocal
    /\ LET mk == [made EXCEPT ![c][k] = @ + 1]
           start == sema[c] = 0
       IN /\ (start => nreq < MaxReqs)
          /\ made' = mk
          /\ applied' = [applied EXCEPT ![c][k] = Append(@, Op(c, k, mk[c][k]))]
          /\ IF start
             THEN /\ reqs' = reqs \cup {Request(nreq + 1, c, k, mk, cp, "push")}
                  /\ sema' = [sema EXCEPT ![c] = nreq + 1] /\ nreq' = nreq + 1
                  /\ UNCHANGED waiters
             ELSE /\ waiters' = IF Queued THEN [waiters EXCEPT ![c] = Append(@, k)] ELSE waiters
                  /\ UNCHANGED <<reqs, sema, nreq>>
          /\ Record([name |-> "local", c |-> c, k |-> k, n |-> mk[c][k],
                     req |-> IF start THEN <<ReqOut(Request(nreq + 1, c, k, mk, cp, "push"))>> ELSE <<>>])
    /\ UNCHANGED <<cp, loop, nq, resps, log, scp, held>>

\* the deliveries waiting for the semaphore get it in turn; one that has nothing left to push gives it back at once
RECURSIVE RunQueue(_, _, _, _, _)
RunQueue(c, q, mk, cpx, id) ==
    IF q = <<>> THEN [q |-> <<>>, busy |-> FALSE]
    ELSE IF NeedPush(c, Head(q), mk, cpx) THEN [q |-> Tail(q), busy |-> TRUE, req |-> Request(id, c, Head(q), mk, cpx, "push")]
    ELSE RunQueue(c, Tail(q), mk, cpx, id)

\* ---- the server (one handler run; see OrdaSync.Serve, case "normal") ----
RECURSIVE PushOps(_, _, _)
PushOps(lg, cur, ns) ==
    IF ns = <<>> THEN [log |-> lg, cseq |-> cur]
    ELSE IF cur + 1 = Head(ns)[3] THEN PushOps(Append(lg, Head(ns)), cur + 1, Tail(ns))
    ELSE PushOps(lg, cur, Tail(ns))       \* already stored (the client never leaves a gap)
Serve(r) ==
    /\ r \in reqs
    /\ LET k == r.k
           res == PushOps(log[k], scp[k][r.c].c, r.ops)
           pulled == SubSeq(log[k], r.cps + 1, Len(log[k]))
           ncp == [s |-> Len(res.log), c |-> res.cseq]
           pushed == Len(res.log) - Len(log[k])
       IN /\ log' = [log EXCEPT ![k] = res.log]
          /\ scp' = [scp EXCEPT ![k][r.c] = ncp]
          /\ resps' = resps \cup {[id |-> r.id, c |-> r.c, k |-> k, cps |-> ncp.s, cpc |-> ncp.c, ops |-> pulled,
                                   from |-> r.cps + 1, via |-> r.via]}
          \* one notification per push that stored something, to every subscriber of the topic
          /\ held' = IF pushed > 0 THEN [c \in Clients |-> Append(held[c], [k |-> k, by |-> r.c, end |-> Len(res.log)])]
                     ELSE held
          /\ Record([name |-> "serve", id |-> r.id, c |-> r.c, k |-> k, pushed |-> pushed, pulled |-> Len(pulled),
                     cps |-> ncp.s, cpc |-> ncp.c])
    /\ reqs' = reqs \ {r}
    /\ UNCHANGED <<made, cp, applied, sema, waiters, loop, nq, nreq>>

\* ---- the notification loop of client c: look at queued notifications until one needs a sync ----
\* returns [nq, loop, req]: req = <<>> or the request it sends (cpx: the client's checkpoints now)
RECURSIVE LoopRun(_, _, _, _, _)
LoopRun(c, q, cpx, mk, id) ==
    IF q = <<>> THEN [nq |-> <<>>, busy |-> FALSE]
    ELSE LET n == Head(q) IN
         IF n.by = c \/ cpx[c][n.k].s >= n.end THEN LoopRun(c, Tail(q), cpx, mk, id)     \* own, or already covered
         ELSE [nq |-> Tail(q), busy |-> TRUE, req |-> Request(id, c, n.k, mk, cpx, "notif")]

\* ---- a response is let through to the client ----
Respond(p) ==
    /\ p \in resps
    /\ LET c == p.c
           k == p.k
           x == cp[c][k]
           idx == {i \in 1..Len(p.ops) : p.from + i - 1 > x.s /\ p.ops[i][1] # c}
           sel == SelectSeq([i \in 1..Len(p.ops) |-> IF i \in idx THEN p.ops[i] ELSE <<0, 0, 0>>], LAMBDA o : o # <<0, 0, 0>>)
           ncp == [cp EXCEPT ![c][k] = [s |-> Max(x.s, p.cps), c |-> Max(x.c, p.cpc)]]
           \* what the client shows once the response is applied (the replay waits for it)
           after == [s |-> ncp[c][k].s, c |-> ncp[c][k].c, applied |-> applied[c][k] \o sel]
       IN /\ cp' = ncp
          /\ applied' = [applied EXCEPT ![c][k] = @ \o sel]
          /\ IF p.via = "push"
             THEN \* the pushing goroutine releases the semaphore (the first waiting delivery gets it) and then, if its
                  \* datatype still has something to push, starts another delivery, which queues up behind the others
                  /\ LET q == waiters[c] \o (IF NeedPush(c, k, made, ncp) THEN <<k>> ELSE <<>>)
                         rq == RunQueue(c, q, made, ncp, nreq + 1)
                     IN /\ (rq.busy => nreq < MaxReqs)
                        /\ waiters' = [waiters EXCEPT ![c] = rq.q]
                        /\ IF rq.busy
                           THEN /\ reqs' = reqs \cup {rq.req}
                                /\ sema' = [sema EXCEPT ![c] = nreq + 1] /\ nreq' = nreq + 1
                           ELSE /\ sema' = [sema EXCEPT ![c] = 0] /\ UNCHANGED <<reqs, nreq>>
                        /\ Record([name |-> "respond", id |-> p.id, c |-> c, k |-> k, after |-> after, cands |-> SeqToSet(q),
                                   req |-> IF rq.busy THEN <<ReqOut(rq.req)>> ELSE <<>>])
                  /\ UNCHANGED <<loop, nq>>
             ELSE \* the notification loop goes on with its queue
                  /\ LET lr == LoopRun(c, nq[c], ncp, made, nreq + 1) IN
                     /\ nq' = [nq EXCEPT ![c] = lr.nq]
                     /\ (lr.busy => nreq < MaxReqs)
                     /\ IF lr.busy
                        THEN /\ reqs' = reqs \cup {lr.req} /\ loop' = [loop EXCEPT ![c] = nreq + 1] /\ nreq' = nreq + 1
                        ELSE /\ loop' = [loop EXCEPT ![c] = 0] /\ UNCHANGED <<reqs, nreq>>
                     /\ Record([name |-> "respond", id |-> p.id, c |-> c, k |-> k, after |-> after, cands |-> {},
                                req |-> IF lr.busy THEN <<ReqOut(lr.req)>> ELSE <<>>])
                  /\ UNCHANGED <<sema, waiters>>
    /\ resps' = resps \ {p}
    /\ UNCHANGED <<made, log, scp, held>>

\* ---- the broker lets the i-th held notification of subscriber c through ----
Notify(c, i) ==
    /\ i \in 1..Len(held[c])
    /\ LET n == held[c][i]
           q == Append(nq[c], n)
       IN /\ held' = [held EXCEPT ![c] = SubSeq(@, 1, i - 1) \o SubSeq(@, i + 1, Len(@))]
          /\ IF loop[c] = 0
             THEN LET lr == LoopRun(c, q, cp, made, nreq + 1) IN
                  /\ nq' = [nq EXCEPT ![c] = lr.nq]
                  /\ (lr.busy => nreq < MaxReqs)
                  /\ IF lr.busy
                     THEN /\ reqs' = reqs \cup {lr.req} /\ loop' = [loop EXCEPT ![c] = nreq + 1] /\ nreq' = nreq + 1
                     ELSE UNCHANGED <<reqs, loop, nreq>>
                  /\ Record([name |-> "notify", c |-> c, i |-> i, k |-> n.k, by |-> n.by, end |-> n.end,
                             req |-> IF lr.busy THEN <<ReqOut(lr.req)>> ELSE <<>>])
             ELSE /\ nq' = [nq EXCEPT ![c] = q] /\ UNCHANGED <<reqs, loop, nreq>>
                  /\ Record([name |-> "notify", c |-> c, i |-> i, k |-> n.k, by |-> n.by, end |-> n.end, req |-> <<>>])
    /\ UNCHANGED <<made, cp, applied, sema, waiters, resps, log, scp>>

Next == \/ \E c \in Clients, k \in Keys : Local(c, k)
        \/ \E r \in reqs : Serve(r)
        \/ \E p \in resps : Respond(p)
        \/ \E c \in Clients : \E i \in 1..Len(held[c]) : Notify(c, i)
Spec == Init /\ [][Next]_vars
\* the server handles what reaches it, the network delivers responses and notifications
Fairness == /\ WF_vars(\E r \in reqs : Serve(r))
            /\ WF_vars(\E p \in resps : Respond(p))
            /\ WF_vars(\E c \in Clients : \E i \in 1..Len(held[c]) : Notify(c, i))
FairSpec == Spec /\ Fairness

---------------------------------------------------------------------------
NoDup(s) == \A i, j \in 1..Len(s) : i # j => s[i] # s[j]
Foreign(c, s) == SelectSeq(s, LAMBDA o : o[1] # c)
\* the stored log: gapless per client, no repeats (C06 holds under realtime traffic too)
LogNoRepeats == \A k \in Keys : NoDup(log[k])
PerClientOrder == \A k \in Keys, c \in Clients : LET mine == SelectSeq(log[k], LAMBDA o : o[1] = c) IN
                      \A i \in 1..Len(mine) : mine[i][3] = i
ServerCpExact == \A k \in Keys, c \in Clients :
                     /\ scp[k][c].s <= Len(log[k])
                     /\ scp[k][c].c = Cardinality({i \in 1..Len(log[k]) : log[k][i][1] = c})
\* every client applies every operation exactly once, foreign ones in log order (overlapping syncs included)
AppliedExactlyOnce == \A c \in Clients, k \in Keys : NoDup(applied[c][k])
AppliedInLogOrder == \A c \in Clients, k \in Keys :
                        LET fa == Foreign(c, applied[c][k]) IN fa = SubSeq(Foreign(c, log[k]), 1, Len(fa))
ClientCpWithinLog == \A c \in Clients, k \in Keys : cp[c][k].s <= Len(log[k]) /\ cp[c][k].c <= made[c][k]
CpMonotone == [][\A c \in Clients, k \in Keys : cp'[c][k].s >= cp[c][k].s /\ cp'[c][k].c >= cp[c][k].c]_vars
\* the semaphore is held by exactly the push request in flight
HoldsSema(c) == \E m \in reqs \cup resps : m.c = c /\ m.via = "push" /\ m.id = sema[c]
SemaHeldByRequest == \A c \in Clients : ((sema[c] # 0) <=> HoldsSema(c)) /\ ((waiters[c] # <<>>) => (sema[c] # 0))
\* one notification per push that stored operations: never for a pull-only sync
NotifiedEnds == \A c \in Clients : \A i \in 1..Len(held[c]) : held[c][i].end <= Len(log[held[c][i].k])

\* convergence
Settled == \A c \in Clients, k \in Keys : cp[c][k].s = Len(log[k]) /\ cp[c][k].c = made[c][k]
Idle == reqs = {} /\ resps = {} /\ \A c \in Clients : held[c] = <<>> /\ nq[c] = <<>> /\ waiters[c] = <<>>
\* whenever nothing is in flight any more, everybody holds everything (no operation is stranded)
IdleIsSettled == Idle => Settled
SettledAgree == Settled => \A c \in Clients, k \in Keys : SeqToSet(applied[c][k]) = SeqToSet(log[k])
\* realtime clients converge by themselves: without any Sync call everybody ends up settled
Converges == <>[]Settled

StateView == <<made, cp, applied, sema, waiters, loop, nq, reqs, resps, log, scp, held, nreq>>
====
