---- MODULE OrdaSnapStore ----
(***************************************************************************)
(* Trace validation (I->S) of what the server writes to its store while    *)
(* pushes and background snapshot updates run in REAL parallel (C11).      *)
(*                                                                         *)
(* The harness lets several clients push at the same time, with seeded     *)
(* random delays in front of every database command (longer ones in front  *)
(* of the snapshot manager's), and records every effective write in the    *)
(* order the store applied it (the store's own mutex is the linearization):*)
(*   ops   v     operation documents up to sequence number v are stored    *)
(*   snap  v     a snapshot document of version v was inserted             *)
(*   udoc  v     the user-visible document was replaced, recording v       *)
(*   end   v     the datatype document was written with log end v          *)
(* What C11 says about these writes, whatever the server's locking is:     *)
(*   a snapshot never captures more than what is stored; a version is      *)
(*   stored once; the user-visible document records the version of a       *)
(*   stored snapshot, and the recorded version never decreases; the        *)
(*   recorded end of the log (C06) never exceeds what is stored and never  *)
(*   goes back - whoever writes the datatype document.                     *)
(* (That the CONTENT of every snapshot and of the document equals the      *)
(* replay of the log prefix is checked by the harness on the same runs,    *)
(* real against real.)  OrdaSnap's updater - lock, read, insert, replace - *)
(* refines this; the lock is how the code keeps UDoc monotone.             *)
(***************************************************************************)
EXTENDS Integers, Sequences, FiniteSets, TLC, Json

TheTrace == ndJsonDeserialize("trace.ndjson")
VARIABLES stored, snaps, udoc, end, l
vars == <<stored, snaps, udoc, end, l>>
Ev == TheTrace[l]
Is(e) == l <= Len(TheTrace) /\ Ev.event = e
Adv == l' = l + 1

Ops == /\ Is("ops") /\ Adv
       /\ Ev.v = stored + Ev.n              \* sequence numbers continue without a gap
       /\ stored' = Ev.v /\ UNCHANGED <<snaps, udoc, end>>
Snap == /\ Is("snap") /\ Adv
        /\ Ev.v <= stored /\ Ev.v \notin snaps
        /\ snaps' = snaps \cup {Ev.v} /\ UNCHANGED <<stored, udoc, end>>
UDoc == /\ Is("udoc") /\ Adv
        /\ Ev.v \in snaps /\ Ev.v >= udoc
        /\ udoc' = Ev.v /\ UNCHANGED <<stored, snaps, end>>
End == /\ Is("end") /\ Adv
       /\ Ev.v <= stored /\ Ev.v >= end
       /\ end' = Ev.v /\ UNCHANGED <<stored, snaps, udoc>>
Reset == /\ Is("reset") /\ Adv /\ stored' = 0 /\ snaps' = {} /\ udoc' = 0 /\ end' = 0

TraceInit == stored = 0 /\ snaps = {} /\ udoc = 0 /\ end = 0 /\ l = 1 /\ TLCSet(1, 0)
TraceNext == Ops \/ Snap \/ UDoc \/ End \/ Reset
TraceSpec == TraceInit /\ [][TraceNext]_vars
NotAccepted == l <= Len(TheTrace)
Progress == IF l > TLCGet(1) THEN TLCSet(1, l) /\ PrintT(<<"HW", l>>) ELSE TRUE
UserDocIsSnapshot == udoc = 0 \/ udoc \in snaps
SnapshotWithinLog == \A v \in snaps : v <= stored
====
