\* generated by gensnap.py - edit there
SPECIFICATION Spec
CONSTANTS
 Clients = {1, 2}
 MaxLocal = 1
 MaxSyncs = 2
 MaxPatches = 1
 MaxUpdaters = 2
 InitSnapshot = FALSE
INVARIANT SnapshotWithinLog
INVARIANT UserDocIsSnapshot
INVARIANT OneUpdaterAtATime
INVARIANT PubsMonotone
INVARIANT PubsWithinLog
PROPERTY UserDocMonotone
VIEW StateView
ACTION_CONSTRAINT EdgeDump
CHECK_DEADLOCK FALSE
