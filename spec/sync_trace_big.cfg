\* trace validation of LONG recorded histories (concdriver -big): the quadratic log invariants are left out, the store events compare the log itself
SPECIFICATION TraceSpec
CONSTANTS
 Clients = {1, 2, 3, 4}
 Creators = {1}
 Subscribers = {2, 3, 4}
 OtherType = {}
 MaxPre = 0
 MaxOps = 100000
 MaxSends = 100000
 MaxServes = 1
 MaxApplies = 1
 Faults = TRUE
 KeepHist = FALSE
INVARIANT NotAccepted
CONSTRAINT Progress
INVARIANT LogEndRecorded
INVARIANT CpWithinLog
VIEW TraceView
CHECK_DEADLOCK FALSE
