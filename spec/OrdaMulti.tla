---- MODULE OrdaMulti ----
(***************************************************************************)
(* Clients with SEVERAL datatypes that sync through the public API (C05:   *)
(* "any number of clients and datatypes"; C17: "operations on one datatype *)
(* never change another").                                                 *)
(*                                                                         *)
(* client/pkg/orda/client.go  Client.Sync -> DatatypeManager.SyncAll: one  *)
(*   PUSHPULL message carrying one pack per datatype the client has opened *)
(*   (in the order of a Go map, i.e. any order); the call blocks until the *)
(*   answer has been applied to every datatype.                            *)
(* server/service/service_pushpull_client.go  one handler goroutine per    *)
(*   pack, all started at once; the answer carries one pack per handler.   *)
(*   Handlers of different keys share nothing but the store; the per-key   *)
(*   step is OrdaSync.Serve (concurrent handlers of one key are C12's).    *)
(*                                                                         *)
(* Every client opens its datatypes by SubscribeOrCreate, so the first     *)
(* pack that reaches the server for a key creates it and every later       *)
(* client is subscribed to it (its own creation is dropped).               *)
(* Actions = what the replay controls: Open, Local (the user), Send (the   *)
(* user calls Sync; the request reaches the server's port), Serve (the     *)
(* request is handled), Respond (the answer is let through; Sync returns). *)
(* Operations are identities <<client, key, seq, kind>> (kind 1 = creation).*)
(***************************************************************************)
EXTENDS Integers, Sequences, FiniteSets, TLC

CONSTANTS Clients, Keys,
          MaxOps,      \* local operations per client and key
          MaxSends     \* Sync calls in total
VARIABLES cl,      \* cl[c][k] = [state, duid, cps, cpc, seq, applied, buf]
          dt,      \* dt[k] = [exists, duid, scp]     scp[c] = [s, c] or <<>>
          log,     \* log[k]: stored operations of key k
          reqs, resps,
          nsend,
          act, hist
vars == <<cl, dt, log, reqs, resps, nsend, act, hist>>

NoCp == <<>>
Max(a, b) == IF a > b THEN a ELSE b
SeqToSet(s) == {s[i] : i \in 1..Len(s)}
OpId(c, k, n) == <<c, k, n, 0>>
SnapId(c, k) == <<c, k, 1, 1>>
Record(a) == act' = a /\ hist' = Append(hist, a)

Init == /\ cl = [c \in Clients |-> [k \in Keys |-> [state |-> "closed", duid |-> 0, cps |-> 0, cpc |-> 0, seq |-> 0, applied |-> <<>>, buf |-> <<>>]]]
        /\ dt = [k \in Keys |-> [exists |-> FALSE, duid |-> 0, scp |-> [c \in Clients |-> NoCp]]]
        /\ log = [k \in Keys |-> <<>>]
        /\ reqs = {} /\ resps = {} /\ nsend = 0
        /\ act = [name |-> "init"] /\ hist = <<>>

InFlight(c) == \E m \in reqs \cup resps : m.c = c
Open(c, k) == /\ cl[c][k].state = "closed" /\ ~InFlight(c)
              /\ cl' = [cl EXCEPT ![c][k] = [state |-> "due", duid |-> c, cps |-> 0, cpc |-> 0, seq |-> 1,
                                             applied |-> <<SnapId(c, k)>>, buf |-> <<SnapId(c, k)>>]]
              /\ Record([name |-> "open", c |-> c, k |-> k])
              /\ UNCHANGED <<dt, log, reqs, resps, nsend>>
Local(c, k) == /\ cl[c][k].state # "closed" /\ cl[c][k].seq < MaxOps + 1 /\ ~InFlight(c)
               /\ LET n == cl[c][k].seq + 1 IN
                  cl' = [cl EXCEPT ![c][k].seq = n, ![c][k].applied = Append(@, OpId(c, k, n)), ![c][k].buf = Append(@, OpId(c, k, n))]
               /\ Record([name |-> "local", c |-> c, k |-> k, seq |-> cl[c][k].seq + 1])
               /\ UNCHANGED <<dt, log, reqs, resps, nsend>>

\* CreatePushPullPack of one datatype
Pack(c, k) == LET x == cl[c][k] IN
    [k |-> k, duid |-> x.duid, due |-> x.state = "due", cps |-> x.cps, cpc |-> x.seq,
     ops |-> SelectSeq(x.buf, LAMBDA o : o[3] > x.cpc)]
OpenKeys(c) == {k \in Keys : cl[c][k].state # "closed"}
\* a message carries its packs as a sequence (written here in key order; the real order is that of a Go map)
RECURSIVE KeySeq(_)
KeySeq(S) == IF S = {} THEN <<>> ELSE LET m == CHOOSE x \in S : \A y \in S : x <= y IN <<m>> \o KeySeq(S \ {m})
PacksOf(c) == LET ks == KeySeq(OpenKeys(c)) IN [i \in 1..Len(ks) |-> Pack(c, ks[i])]
KeysIn(m) == {m.packs[i].k : i \in 1..Len(m.packs)}
Send(c) == /\ OpenKeys(c) # {} /\ ~InFlight(c) /\ nsend < MaxSends
           /\ reqs' = reqs \cup {[id |-> nsend + 1, c |-> c, packs |-> PacksOf(c)]}
           /\ nsend' = nsend + 1
           /\ Record([name |-> "send", c |-> c, id |-> nsend + 1,
                      packs |-> [i \in 1..Len(PacksOf(c)) |-> LET p == PacksOf(c)[i] IN
                                    [k |-> p.k, due |-> p.due, cps |-> p.cps, cpc |-> p.cpc, nops |-> Len(p.ops)]]])
           /\ UNCHANGED <<cl, dt, log, resps>>

\* ---- one handler run for one pack (OrdaSync.Serve restricted to SubscribeOrCreate and normal requests) ----
RECURSIVE PushOps(_, _, _)
PushOps(lg, cur, ns) == IF ns = <<>> THEN [log |-> lg, cseq |-> cur]
                        ELSE IF cur + 1 = Head(ns)[3] THEN PushOps(Append(lg, Head(ns)), cur + 1, Tail(ns))
                        ELSE PushOps(lg, cur, Tail(ns))
Handle(c, p) ==
    LET k == p.k
        d == dt[k]
        subscribed == d.exists /\ d.scp[c] # NoCp
        run(kind, scp0, pushes) ==
            LET res == PushOps(log[k], scp0.c, pushes)
                ncp == [s |-> Len(res.log), c |-> res.cseq]
                nduid == IF d.exists THEN d.duid ELSE p.duid
            IN [log |-> res.log,
                dt |-> [exists |-> TRUE, duid |-> nduid, scp |-> [d.scp EXCEPT ![c] = ncp]],
                resp |-> [k |-> k, kind |-> kind, duid |-> nduid, cps |-> ncp.s, cpc |-> ncp.c,
                          ops |-> SubSeq(log[k], p.cps + 1, Len(log[k])), from |-> p.cps + 1]]
    IN IF p.due
       THEN IF ~d.exists THEN run("created", [s |-> 0, c |-> 0], p.ops)
            ELSE IF ~subscribed THEN run("subscribed", [s |-> 0, c |-> 0], <<>>)
            ELSE IF d.duid = p.duid THEN run("normal", d.scp[c], p.ops)
            ELSE run("subscribed", d.scp[c], <<>>)
       ELSE run("normal", d.scp[c], p.ops)       \* a subscribed client's ordinary pack (its duid is the datatype's)

Serve(m) ==
    /\ m \in reqs
    /\ LET n == Len(m.packs)
           h == [i \in 1..n |-> Handle(m.c, m.packs[i])]
           at(k) == CHOOSE i \in 1..n : m.packs[i].k = k
       IN /\ log' = [k \in Keys |-> IF k \in KeysIn(m) THEN h[at(k)].log ELSE log[k]]
          /\ dt' = [k \in Keys |-> IF k \in KeysIn(m) THEN h[at(k)].dt ELSE dt[k]]
          /\ resps' = resps \cup {[id |-> m.id, c |-> m.c, packs |-> [i \in 1..n |-> h[i].resp]]}
          /\ Record([name |-> "serve", id |-> m.id, c |-> m.c,
                     packs |-> [i \in 1..n |-> [k |-> h[i].resp.k, kind |-> h[i].resp.kind, cps |-> h[i].resp.cps, cpc |-> h[i].resp.cpc,
                                                nops |-> Len(h[i].resp.ops)]]])
    /\ reqs' = reqs \ {m}
    /\ UNCHANGED <<cl, nsend>>

\* ---- the answer is applied to every datatype it names (OrdaSync.Apply) ----
ApplyPack(c, x, p) ==
    IF p.kind = "subscribed" /\ x.state = "due"
    THEN [state |-> "subscribed", duid |-> p.duid, cps |-> p.cps, cpc |-> p.cpc, seq |-> 0, applied |-> p.ops, buf |-> <<>>]
    ELSE LET idx == {i \in 1..Len(p.ops) : p.from + i - 1 > x.cps /\ p.ops[i][1] # c}
             sel == SelectSeq([i \in 1..Len(p.ops) |-> IF i \in idx THEN p.ops[i] ELSE <<0, 0, 0, 0>>], LAMBDA o : o # <<0, 0, 0, 0>>)
         IN [x EXCEPT !.state = "subscribed", !.duid = p.duid, !.cps = Max(@, p.cps), !.cpc = Max(@, p.cpc), !.applied = @ \o sel]
Respond(m) ==
    /\ m \in resps
    /\ cl' = [cl EXCEPT ![m.c] = [k \in Keys |-> IF k \in KeysIn(m)
                                                  THEN ApplyPack(m.c, cl[m.c][k], m.packs[CHOOSE i \in 1..Len(m.packs) : m.packs[i].k = k])
                                                  ELSE cl[m.c][k]]]
    /\ resps' = resps \ {m}
    /\ Record([name |-> "respond", id |-> m.id, c |-> m.c])
    /\ UNCHANGED <<dt, log, reqs, nsend>>

Next == \/ \E c \in Clients, k \in Keys : Open(c, k) \/ Local(c, k)
        \/ \E c \in Clients : Send(c)
        \/ \E m \in reqs : Serve(m)
        \/ \E m \in resps : Respond(m)
Spec == Init /\ [][Next]_vars
---------------------------------------------------------------------------
NoDup(s) == \A i, j \in 1..Len(s) : i # j => s[i] # s[j]
Foreign(c, s) == SelectSeq(s, LAMBDA o : o[1] # c)
\* per datatype: the C06 / C05 predicates
LogNoRepeats == \A k \in Keys : NoDup(log[k])
PerClientOrder == \A k \in Keys, c \in Clients : LET mine == SelectSeq(log[k], LAMBDA o : o[1] = c) IN
                      \A i \in 1..Len(mine) : mine[i][3] = i
CpWithinLog == \A k \in Keys, c \in Clients : dt[k].scp[c] # NoCp =>
                   /\ dt[k].scp[c].s <= Len(log[k])
                   /\ dt[k].scp[c].c = Cardinality({i \in 1..Len(log[k]) : log[k][i][1] = c})
AppliedExactlyOnce == \A c \in Clients, k \in Keys : NoDup(cl[c][k].applied)
AppliedInLogOrder == \A c \in Clients, k \in Keys : cl[c][k].state = "subscribed" =>
                        LET fa == Foreign(c, cl[c][k].applied) IN fa = SubSeq(Foreign(c, log[k]), 1, Len(fa))
Settled(c, k) == cl[c][k].state = "subscribed" /\ cl[c][k].cps = Len(log[k]) /\ cl[c][k].cpc = cl[c][k].seq
QuiescentAgreement == \A c \in Clients, k \in Keys : Settled(c, k) => SeqToSet(cl[c][k].applied) = SeqToSet(log[k])
\* datatypes are independent: a log only holds operations of its own key, a replica only operations of its own key
KeysSeparate == /\ \A k \in Keys : \A i \in 1..Len(log[k]) : log[k][i][2] = k
                /\ \A c \in Clients, k \in Keys : \A i \in 1..Len(cl[c][k].applied) : cl[c][k].applied[i][2] = k
\* ... and a request only changes the datatypes it names
FrameCondition == [][\A k \in Keys : (\A m \in reqs : m \notin reqs' => k \notin KeysIn(m)) => (log'[k] = log[k] /\ dt'[k] = dt[k])]_vars
CpMonotone == [][\A c \in Clients, k \in Keys : (cl[c][k].state = "subscribed" /\ cl'[c][k].state = "subscribed") =>
                                        cl'[c][k].cps >= cl[c][k].cps /\ cl'[c][k].cpc >= cl[c][k].cpc]_vars
OneDatatypePerKey == \A k \in Keys : dt[k].exists => dt[k].duid \in Clients
StateView == <<cl, dt, log, reqs, resps, nsend>>
====
