---- MODULE OrdaSnapDump ----
EXTENDS OrdaSnap, Json, TLCExt
SetToSeq(S) == LET RECURSIVE F(_) F(T) == IF T = {} THEN <<>> ELSE LET m == CHOOSE x \in T : \A y \in T : x <= y IN <<m>> \o F(T \ {m}) IN F(S)
Obs == [end |-> end, snaps |-> SetToSeq(snaps), udoc |-> udoc, pubs |-> pubs, cps |-> cps, pend |-> pend,
        phases |-> [i \in 1..Len(ups) |-> ups[i].phase], initsnap |-> InitSnapshot]
EdgeDump == PrintT("EDGE " \o ToJson([hist |-> hist', obs |-> Obs']))
StepDump == PrintT("STEP " \o ToJson([t |-> TLCGet("stats").traces, l |-> TLCGet("level"), act |-> act,
                                      pact |-> IF Len(hist) >= 2 THEN hist[Len(hist) - 1] ELSE [name |-> "init"], obs |-> Obs]))
====
