SPECIFICATION Spec
CONSTANTS
 Mode = "collide"
 G = 24
 Clients = {1, 2, 3}
INVARIANT Dump
INVARIANT KeyInjective
INVARIANT OrderTotal
INVARIANT OrderTransitive
CHECK_DEADLOCK FALSE
