\* generated by gensnap.py - edit there
SPECIFICATION Spec
CONSTANTS
 Clients = {1, 2}
 MaxLocal = 3
 MaxSyncs = 8
 MaxPatches = 3
 MaxUpdaters = 2
 InitSnapshot = TRUE
INVARIANT SnapshotWithinLog
INVARIANT UserDocIsSnapshot
INVARIANT OneUpdaterAtATime
INVARIANT PubsMonotone
INVARIANT PubsWithinLog
INVARIANT StepDump
CHECK_DEADLOCK FALSE
