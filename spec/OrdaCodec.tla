---- MODULE OrdaCodec ----
(***************************************************************************)
(* The enumeration grid of C14: operation type x value class x position in *)
(* a batch x identifier class.  There is no behaviour to explore - every grid point is an     *)
(* initial state; TLC enumerates them all and prints one line per point.   *)
(* The operation types "...txreuse" are multi-value inserts made inside a   *)
(* user transaction from a slice the caller REUSES (overwrites) before the *)
(* transaction ends: what travels must be what was inserted.               *)
(* The harness maps the class names to concrete Go values (every numeric   *)
(* width, pointers, structs, maps, slices, nesting, empty containers,      *)
(* unicode / separator / escape-heavy strings, integers beyond 2^53),      *)
(* emits the operation from a real replica and sends it through every      *)
(* encode / decode path of the code (operation <-> protocol message,       *)
(* protobuf bytes, operation document <-> BSON, the MongoDB repository,    *)
(* the server's encoding-echo service).  What the specification contributes*)
(* is only the grid; the oracle is code against code.                      *)
(***************************************************************************)
EXTENDS Integers, Sequences, TLC, Json
OpTypes == {"counter.inc", "map.put", "map.remove", "list.insert", "list.update", "list.delete",
            "doc.put", "doc.rmv", "doc.ins", "doc.upd", "doc.del", "tx", "list.insert.txreuse", "doc.ins.txreuse", "snapshot.counter", "snapshot.map", "snapshot.list", "snapshot.doc"}
ValueClasses == {"int", "int8", "int16", "int32", "int64", "uint", "uint8", "uint16", "uint32", "uint64", "bigint", "maxuint64", "negint",
                 "float32", "f32frac", "nestedbig", "structnum", "float64", "bigfloat", "tinyfloat", "negzero", "bool", "str", "emptystr", "unicode", "emoji", "separators", "escapes", "control", "longstr",
                 "ptrint", "ptrstr", "struct", "map", "nestedmap", "emptymap", "slice", "emptyslice", "mixedslice", "deep"}
Positions == {"single", "first", "last"}
\* the identifier the operation carries: small counters; a non-zero era; counters beyond 32 bits
IdClasses == {"small", "era", "big"}
HasValue(t) == t \in {"map.put", "list.insert", "list.update", "doc.put", "doc.ins", "doc.upd", "list.insert.txreuse", "doc.ins.txreuse", "snapshot.map", "snapshot.list", "snapshot.doc"}
HasBatch(t) == t \in {"list.insert", "list.update", "doc.ins", "doc.upd", "list.insert.txreuse", "doc.ins.txreuse"}
Grid == {g \in [type : OpTypes, cls : ValueClasses, pos : Positions, idc : IdClasses] :
            /\ (~HasValue(g.type) => g.cls = "int")
            /\ (~HasBatch(g.type) => g.pos = "single")
            /\ (g.idc # "small" => g.cls \in {"int", "nestedmap"} /\ g.pos = "single")}
VARIABLE g
Init == g \in Grid
Next == UNCHANGED g
Spec == Init /\ [][Next]_g
Dump == PrintT("CODEC " \o ToJson(g))
====
