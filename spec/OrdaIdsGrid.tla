---- MODULE OrdaIdsGrid ----
(***************************************************************************)
(* Identifier grid of C15: timestamps <<lamport, client, delimiter>> and   *)
(* operation ids over a grid, so that the specification's operators        *)
(* (OrdaIds) are bound to the code's functions point by point:             *)
(*   points   every grid timestamp: the real identifier key                *)
(*            (Timestamp.Hash) must be injective over the whole grid - an   *)
(*            operation addressed to one element never finds another       *)
(*   pairs    every pair of a small grid with TsLess / TsEq: the real      *)
(*            Compare must agree (strict total order over distinct         *)
(*            operations; the delimiter is ignored)                        *)
(*   ids      NextId / RollBackId / SyncLamport over a grid                *)
(*   collide  every pair of distinct timestamps of one client whose        *)
(*            identifier keys were EQUAL under the separator-less decimal  *)
(*            rendering the code used to have (KeyAsBuilt): each is turned *)
(*            into a real history (two batch inserts) in which an          *)
(*            operation addressed to one of the two elements must not      *)
(*            touch the other                                              *)
(* There is no behaviour: every grid point is an initial state that TLC    *)
(* enumerates and prints; the oracle for points / pairs / ids is the       *)
(* specification's operator, for collide it is the property itself.        *)
(***************************************************************************)
EXTENDS OrdaIds, Json
CONSTANTS Mode, G, Clients
Grid(n) == {<<l, c, d>> : l \in 1..n, c \in Clients, d \in 0..n}
Points == [kind : {"point"}, t : Grid(G)]
Pairs == [kind : {"pair"}, a : Grid(G), b : Grid(G)]
Ids == [kind : {"id"}, l : 0..G, s : 0..G, o : 0..(G + 2)]
\* same client, first strictly older, keys equal without separators
Collide == {p \in [kind : {"collide"}, a : Grid(G), b : Grid(G)] :
               p.a[2] = p.b[2] /\ p.a[1] < p.b[1] /\ p.a[1] >= 2 /\ KeyAsBuilt(p.a) = KeyAsBuilt(p.b)}
VARIABLE x
Init == x \in (CASE Mode = "points" -> Points [] Mode = "pairs" -> Pairs [] Mode = "ids" -> Ids [] Mode = "collide" -> Collide)
Next == UNCHANGED x
Spec == Init /\ [][Next]_x
Out == CASE x.kind = "point" -> x
         [] x.kind = "pair" -> [kind |-> "pair", a |-> x.a, b |-> x.b, less |-> TsLess(x.a, x.b), eq |-> TsEq(x.a, x.b)]
         [] x.kind = "id" -> LET id == [l |-> x.l, s |-> x.s] IN
                [kind |-> "id", l |-> x.l, s |-> x.s, o |-> x.o, next |-> NextId(id), back |-> RollBackId(NextId(id)), sync |-> SyncLamport(x.l, x.o)]
         [] x.kind = "collide" -> x
Dump == PrintT("IDS " \o ToJson(Out))
\* the design's key is the timestamp itself: injective by construction; stated for the record
KeyInjective == \A a, b \in Grid(3) : KeyDesign(a) = KeyDesign(b) => a = b
\* the order the protocol relies on: strict, total over distinct (lamport, client), delimiter-blind
OrderTotal == \A a, b \in Grid(3) : (TsLess(a, b) \/ TsLess(b, a) \/ TsEq(a, b)) /\ ~(TsLess(a, b) /\ TsLess(b, a)) /\ ~TsLess(a, a)
OrderTransitive == \A a, b, c \in Grid(2) : (TsLess(a, b) /\ TsLess(b, c)) => TsLess(a, c)
====
