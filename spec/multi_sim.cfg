\* generated by genmulti.py - edit there
SPECIFICATION Spec
CONSTANTS
 Clients = {1, 2, 3}
 Keys = {1, 2, 3}
 MaxOps = 2
 MaxSends = 12
INVARIANT LogNoRepeats
INVARIANT PerClientOrder
INVARIANT CpWithinLog
INVARIANT AppliedExactlyOnce
INVARIANT AppliedInLogOrder
INVARIANT QuiescentAgreement
INVARIANT KeysSeparate
INVARIANT OneDatatypePerKey
INVARIANT StepDump
CHECK_DEADLOCK FALSE
