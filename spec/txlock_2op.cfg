\* generated by gentxlock.py - edit there
SPECIFICATION Spec
CONSTANTS
 KindOf = 0
 Procs = {1, 2}
 OpProcs = {1, 2}
 TxProcs = {}
 RemoteProcs = {}
 Calls = 2
 TxLen = 2
 Guarded = TRUE
 FailProcs = {}
INVARIANT NoCrash
INVARIANT MutualExclusion
INVARIANT NoLostUnlock
INVARIANT NoLostUpdate
INVARIANT QueuedOnce
INVARIANT TxContiguous
VIEW StateView
CHECK_DEADLOCK FALSE
