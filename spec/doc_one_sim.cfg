\* generated by gencfg.py - edit there
SPECIFICATION Spec
CONSTANTS
 Kind = "doc"
 Replicas = {1}
 MaxLocal = 9
 MoreLocal = {}
 MaxBatch = 1
 Keys = {"a"}
 Deltas = {1}
 MaxTx = 0
 MaxBad = 6
 MaxRestore = 0
 MaxBadUnit = 0
 RePut = TRUE
 DocNKeys = 2
 DocShapes = {"p", "o0", "o1", "o2", "a0", "a2", "oa", "ao", "o2a"}
 DocMaxBatch = 2
 SimMode = TRUE
INVARIANT PlainRefinement
INVARIANT NoDupIds
INVARIANT SeqGapless
INVARIANT CausalTs
INVARIANT StepDump
CHECK_DEADLOCK FALSE
