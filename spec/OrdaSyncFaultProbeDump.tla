---- MODULE OrdaSyncFaultProbeDump ----
EXTENDS OrdaSyncFaultProbe, Json, TLCExt
CpOut(x) == IF x = NoCp THEN <<-1, -1>> ELSE <<x.s, x.c>>
Obs == [cl |-> [c \in Clients |-> [state |-> cl[c].state, cps |-> cl[c].cps, cpc |-> cl[c].cpc, seq |-> cl[c].seq,
                                   applied |-> cl[c].applied, errs |-> cl[c].errs, settled |-> Settled(c)]],
        oplog |-> oplog, exists |-> dt.exists, owner |-> dt.duid, end |-> dt.end,
        scp |-> [c \in Clients |-> CpOut(dt.scp[c])]]
\* only behaviours that end in a probe are exported
EdgeDump == (act'.name = "probe") => PrintT("EDGE " \o ToJson([hist |-> hist', obs |-> Obs']))
====
