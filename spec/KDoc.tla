---- MODULE KDoc ----
EXTENDS OrdaIds
DInit == 0
DLocal(s, call, ts) == [s |-> s, ret |-> 0, body |-> [type |-> "none"]]
DRemote(s, op) == s
DView(s) == s
DSize(s) == 0
DPlainInit == 0
DPlain(p, call) == [p |-> p, ret |-> 0]
DPlainView(p) == p
DRef(ops) == 0
DValidCalls(s, r, n) == {}
DInvalidCalls(s, r, n) == {}
====
