---- MODULE KDoc ----
(***************************************************************************)
(* The JSON Document kernel of orda-io/orda (client/pkg/orda/document.go,  *)
(* json_object.go, json_array.go, json_primitive.go).                      *)
(*                                                                         *)
(* A snapshot is the flat node table  C |-> node  (jsonCommon.NodeMap),    *)
(* keyed by creation timestamp C = <<lamport, client, delimiter>>:         *)
(*   kind "E" element (v = value tag), "O" object (m: key |-> child C,     *)
(*   a mapSnapshot with last-writer-wins), "A" array (items: RGA sequence  *)
(*   of slots [o |-> order id, c |-> C of the node now in the slot]).      *)
(* D # NoTs marks a tombstone.  The Cemetery is not modelled (nothing      *)
(* reads it).  Nested values get their identities from the delimiter       *)
(* counter along a traversal of the value: container first, then children; *)
(* object children in sorted key order (the deterministic order the design *)
(* needs).                                                                 *)
(*                                                                         *)
(* JSON values: [t |-> "p", p |-> tag] | [t |-> "o", o |-> [key -> value]] *)
(*              | [t |-> "a", a |-> <<values>>]                            *)
(* Calls name their container by a path of strings from the root (array    *)
(* positions as decimal strings), which both the real document and the     *)
(* plain JSON tree can resolve.                                            *)
(***************************************************************************)
EXTENDS OrdaIds

CONSTANTS DocNKeys,   \* how many of the object keys <<"x", "y">> are used (keys are kept in sorted order)
          DocShapes,  \* shapes of the values put / inserted: subset of {"p","o0","o1","o2","a0","a2","oa","ao","o2a"}
          DocMaxBatch \* values per array insert / update / delete

DocKeys == SubSeq(<<"x", "y">>, 1, DocNKeys)

DKeySet == {DocKeys[i] : i \in 1..Len(DocKeys)}
DMerge(f, g) == [x \in (DOMAIN f) \cup (DOMAIN g) |-> IF x \in DOMAIN g THEN g[x] ELSE f[x]]
DEmpty == [x \in {} |-> HeadTs]

VP(i) == [t |-> "p", p |-> i]
VO(f) == [t |-> "o", o |-> f]
VA(s) == [t |-> "a", a |-> s]

\* value shapes; tags t1, t2 make every primitive unique
Shape(name, t1, t2) ==
    CASE name = "p"  -> VP(t1)
      [] name = "o0" -> VO(DEmpty)
      [] name = "o1" -> VO(DocKeys[1] :> VP(t1))
      [] name = "o2" -> VO(("x" :> VP(t1)) @@ ("y" :> VP(t2)))
      [] name = "a0" -> VA(<<>>)
      [] name = "a2" -> VA(<<VP(t1), VP(t2)>>)
      [] name = "oa" -> VO(DocKeys[1] :> VA(<<VP(t1)>>))
      [] name = "ao" -> VA(<<VO(DocKeys[1] :> VP(t1))>>)
      [] name = "o2a" -> VO(("x" :> VA(<<VP(t1)>>)) @@ ("y" :> VA(<<VP(t2)>>)))

DNode(kind, parent, c) == [kind |-> kind, parent |-> parent, C |-> c, D |-> NoTs, v |-> -1, m |-> DEmpty, items |-> <<>>]
DIsTomb(n) == n.D # NoTs
DTime(n) == IF DIsTomb(n) THEN n.D ELSE n.C
SortedKeys(S) == SelectSeq(<<"x", "y">>, LAMBDA k : k \in S)

\* createJSONType: Create(parent, v, l, c, d) -> [tbl: new nodes, root: C of v's node, d: next delimiter]
RECURSIVE DCreate(_, _, _, _, _), DCreateSeq(_, _, _, _, _), DCreateKeys(_, _, _, _, _, _)
DCreate(parent, v, l, c, d) ==
    LET me == <<l, c, d>> IN
    CASE v.t = "p" -> [tbl |-> (me :> [DNode("E", parent, me) EXCEPT !.v = v.p]), root |-> me, d |-> d + 1]
      [] v.t = "a" -> LET r == DCreateSeq(me, v.a, l, c, d + 1)
                          n == [DNode("A", parent, me) EXCEPT !.items = [i \in 1..Len(r.roots) |-> [o |-> r.roots[i], c |-> r.roots[i]]]]
                      IN [tbl |-> DMerge(r.tbl, me :> n), root |-> me, d |-> r.d]
      [] v.t = "o" -> LET r == DCreateKeys(me, v.o, SortedKeys(DOMAIN v.o), l, c, d + 1)
                          n == [DNode("O", parent, me) EXCEPT !.m = r.m]
                      IN [tbl |-> DMerge(r.tbl, me :> n), root |-> me, d |-> r.d]
DCreateSeq(parent, vs, l, c, d) ==
    IF vs = <<>> THEN [tbl |-> [x \in {} |-> 0], roots |-> <<>>, d |-> d]
    ELSE LET h == DCreate(parent, Head(vs), l, c, d)
             t == DCreateSeq(parent, Tail(vs), l, c, h.d)
         IN [tbl |-> DMerge(h.tbl, t.tbl), roots |-> <<h.root>> \o t.roots, d |-> t.d]
DCreateKeys(parent, f, ks, l, c, d) ==
    IF ks = <<>> THEN [tbl |-> [x \in {} |-> 0], m |-> DEmpty, d |-> d]
    ELSE LET h == DCreate(parent, f[Head(ks)], l, c, d)
             t == DCreateKeys(parent, f, Tail(ks), l, c, h.d)
         IN [tbl |-> DMerge(h.tbl, t.tbl), m |-> DMerge(t.m, Head(ks) :> h.root), d |-> t.d]

\* ---- views
RECURSIVE DViewOf(_, _)
DViewOf(T, c) ==
    LET n == T[c] IN
    CASE n.kind = "E" -> VP(n.v)
      [] n.kind = "O" -> VO([k \in {k \in DOMAIN n.m : ~DIsTomb(T[n.m[k]])} |-> DViewOf(T, n.m[k])])
      [] n.kind = "A" -> LET live == SelectSeq(n.items, LAMBDA it : ~DIsTomb(T[it.c]))
                         IN VA([i \in 1..Len(live) |-> DViewOf(T, live[i].c)])
RECURSIVE DIsGarbage(_, _)
DIsGarbage(T, c) == DIsTomb(T[c]) \/ (T[c].parent # NoTs /\ DIsGarbage(T, T[c].parent))
DLiveItems(T, n) == SelectSeq(n.items, LAMBDA it : ~DIsTomb(T[it.c]))

\* ---- applying operations (ExecuteRemote; ExecuteLocal differs only in how targets are found)
DBury(T, c, ts) == [T EXCEPT ![c].D = ts]
DPutApply(T, op) ==
    IF op.P \notin DOMAIN T \/ T[op.P].kind # "O" THEN T
    ELSE LET cr == DCreate(op.P, op.V, op.ts[1], op.ts[2], 0)
             T1 == DMerge(T, cr.tbl)
             par == T1[op.P]
         IN IF op.K \notin DOMAIN par.m
            THEN [T1 EXCEPT ![op.P].m = DMerge(par.m, op.K :> cr.root)]
            ELSE LET old == par.m[op.K] IN
                 IF TsLess(DTime(T1[old]), cr.root)
                 THEN DBury([T1 EXCEPT ![op.P].m = DMerge(par.m, op.K :> cr.root)], old, cr.root)
                 ELSE DBury(T1, cr.root, T1[old].C)
DRmvApply(T, op) ==
    IF op.P \notin DOMAIN T \/ T[op.P].kind # "O" \/ op.K \notin DOMAIN T[op.P].m THEN T
    ELSE LET old == T[op.P].m[op.K] IN
         IF TsLess(DTime(T[old]), op.ts) THEN DBury(T, old, op.ts) ELSE T
DInsertAt(s, i, ns) == SubSeq(s, 1, i) \o ns \o SubSeq(s, i + 1, Len(s))
DIdxOfO(items, o) == IF o = HeadTs THEN 0 ELSE CHOOSE i \in 1..Len(items) : items[i].o = o
DHasO(items, o) == o = HeadTs \/ \E i \in 1..Len(items) : items[i].o = o
RECURSIVE DSkipNewer(_, _, _)
DSkipNewer(items, i, ts) == IF i < Len(items) /\ TsLess(ts, items[i + 1].o) THEN DSkipNewer(items, i + 1, ts) ELSE i
DInsApply(T, op) ==
    IF op.P \notin DOMAIN T \/ T[op.P].kind # "A" \/ ~DHasO(T[op.P].items, op.T) THEN T
    ELSE LET cr == DCreateSeq(op.P, op.V, op.ts[1], op.ts[2], 0)
             T1 == DMerge(T, cr.tbl)
             its == T1[op.P].items
             at == DSkipNewer(its, DIdxOfO(its, op.T), op.ts)
             new == [i \in 1..Len(cr.roots) |-> [o |-> cr.roots[i], c |-> cr.roots[i]]]
         IN [T1 EXCEPT ![op.P].items = DInsertAt(its, at, new)]
RECURSIVE DDelFold(_, _, _, _)
DDelFold(T, op, its, k) ==
    IF k > Len(op.T) THEN T
    ELSE LET dts == Delim(op.ts, k - 1) IN
         IF ~DHasO(its, op.T[k]) \/ op.T[k] = HeadTs THEN DDelFold(T, op, its, k + 1)
         ELSE LET c == its[DIdxOfO(its, op.T[k])].c IN
              IF ~DIsTomb(T[c]) \/ TsLess(T[c].D, dts) THEN DDelFold(DBury(T, c, dts), op, its, k + 1)
              ELSE DDelFold(T, op, its, k + 1)
DDelApply(T, op) == IF op.P \notin DOMAIN T \/ T[op.P].kind # "A" THEN T ELSE DDelFold(T, op, T[op.P].items, 1)
RECURSIVE DUpdFold(_, _, _, _)
DUpdFold(T, op, k, d) ==
    IF k > Len(op.T) THEN T
    ELSE LET cr == DCreate(op.P, op.V[k], op.ts[1], op.ts[2], d)
             T1 == DMerge(T, cr.tbl)
             its == T1[op.P].items IN
         IF ~DHasO(its, op.T[k]) \/ op.T[k] = HeadTs THEN DUpdFold(T1, op, k + 1, cr.d)
         ELSE LET i == DIdxOfO(its, op.T[k])
                  old == its[i].c IN
              IF ~DIsTomb(T1[old]) /\ TsLess(T1[old].C, cr.root)
              THEN DUpdFold(DBury([T1 EXCEPT ![op.P].items[i].c = cr.root], old, cr.root), op, k + 1, cr.d)
              ELSE DUpdFold(DBury(T1, cr.root, T1[old].C), op, k + 1, cr.d)
DUpdApply(T, op) == IF op.P \notin DOMAIN T \/ T[op.P].kind # "A" THEN T ELSE DUpdFold(T, op, 1, 0)

DRemote(T, op) == CASE op.type = "put" -> DPutApply(T, op)
                    [] op.type = "rmv" -> DRmvApply(T, op)
                    [] op.type = "ins" -> DInsApply(T, op)
                    [] op.type = "del" -> DDelApply(T, op)
                    [] op.type = "upd" -> DUpdApply(T, op)

DInit == HeadTs :> DNode("O", NoTs, HeadTs)
DView(T) == DViewOf(T, HeadTs)
DSize(T) == 0

\* ---- local calls: resolve the container by path, build the operation, apply it
\* live containers reachable from the root: set of [path, c]
RECURSIVE DReach(_, _, _)
DReach(T, c, path) ==
    LET n == T[c] IN
    CASE n.kind = "E" -> {}
      [] n.kind = "O" -> {[path |-> path, c |-> c]} \cup
                         UNION {DReach(T, n.m[k], Append(path, k)) : k \in {k \in DOMAIN n.m : ~DIsTomb(T[n.m[k]])}}
      [] n.kind = "A" -> LET live == DLiveItems(T, n) IN
                         {[path |-> path, c |-> c]} \cup
                         UNION {DReach(T, live[i].c, Append(path, ToString(i - 1))) : i \in 1..Len(live)}
DContainers(T) == DReach(T, HeadTs, <<>>)
DResolve(T, path) == (CHOOSE x \in DContainers(T) : x.path = path).c

DBatch(shapes, r, n) == [j \in 1..Len(shapes) |-> Shape(shapes[j], r * 1000 + n * 10 + 2 * j - 1, r * 1000 + n * 10 + 2 * j)]
DShapeSeqs == UNION {[1..len -> DocShapes] : len \in 1..DocMaxBatch}

DValidCalls(T, r, n) ==
    UNION {LET node == T[x.c] IN
           IF node.kind = "O"
           THEN {[op |-> "put", path |-> x.path, k |-> k, v |-> Shape(s, r * 1000 + n * 10 + 1, r * 1000 + n * 10 + 2)]
                     : k \in DKeySet, s \in DocShapes}
                \cup {[op |-> "rmv", path |-> x.path, k |-> k] : k \in {k \in DOMAIN node.m : ~DIsTomb(T[node.m[k]])}}
           ELSE LET sz == Len(DLiveItems(T, node)) IN
                {[op |-> "ins", path |-> x.path, pos |-> p, vals |-> DBatch(ss, r, n)] : p \in 0..sz, ss \in DShapeSeqs}
                \cup {[op |-> "del", path |-> x.path, pos |-> pc[1], n |-> pc[2]]
                         : pc \in {q \in (0..sz) \X (1..DocMaxBatch) : q[1] + q[2] <= sz}}
                \cup {[op |-> "upd", path |-> x.path, pos |-> pq[1], vals |-> DBatch(pq[2], r, n)]
                         : pq \in {q \in (0..sz) \X DShapeSeqs : q[1] + Len(q[2]) <= sz}}
          : x \in DContainers(T)}

\* calls the document must refuse: wrong container kind, bad index, empty key is accepted by the code
\* (not classified), removing an absent key ("free")
DInvalidCalls(T, r, n) ==
    UNION {LET node == T[x.c] IN
           IF node.kind = "O"
           THEN {[op |-> "ins", path |-> x.path, pos |-> 0, vals |-> DBatch(<<"p">>, r, n), err |-> "must"],
                 [op |-> "del", path |-> x.path, pos |-> 0, n |-> 1, err |-> "must"],
                 [op |-> "put", path |-> x.path, k |-> DocKeys[1], v |-> VP(-1), err |-> "must"]}      \* null value
                \* a call on a child container that has been removed or overwritten (the caller still holds it)
                \cup UNION {{[op |-> "put", path |-> Append(x.path, k), k |-> DocKeys[1], v |-> VP(r * 1000 + n * 10 + 1), dead |-> TRUE, err |-> "must"],
                             [op |-> "ins", path |-> Append(x.path, k), pos |-> 0, vals |-> DBatch(<<"p">>, r, n), dead |-> TRUE, err |-> "must"]}
                            : k \in {k \in DOMAIN node.m : DIsTomb(T[node.m[k]]) /\ T[node.m[k]].kind # "E"}}
                \* ... and on a container INSIDE a removed or overwritten object: not removed itself, but garbage with its ancestor
                \cup UNION {UNION {IF T[T[node.m[k]].m[k2]].kind = "A"
                                   THEN {[op |-> "ins", path |-> x.path \o <<k, k2>>, pos |-> 0, vals |-> DBatch(<<"p">>, r, n), dead |-> TRUE, err |-> "must"],
                                         [op |-> "del", path |-> x.path \o <<k, k2>>, pos |-> 0, n |-> 1, dead |-> TRUE, err |-> "must"]}
                                   ELSE {[op |-> "put", path |-> x.path \o <<k, k2>>, k |-> DocKeys[1], v |-> VP(r * 1000 + n * 10 + 1), dead |-> TRUE, err |-> "must"]}
                                   : k2 \in {j \in DOMAIN T[node.m[k]].m : T[T[node.m[k]].m[j]].kind # "E"}}
                            : k \in {k \in DOMAIN node.m : DIsTomb(T[node.m[k]]) /\ T[node.m[k]].kind = "O"}}
                \cup {[op |-> "rmv", path |-> x.path, k |-> k, err |-> "free"]
                         : k \in {k \in DKeySet : k \notin DOMAIN node.m \/ DIsTomb(T[node.m[k]])}}
           ELSE LET sz == Len(DLiveItems(T, node)) IN
                {[op |-> "put", path |-> x.path, k |-> DocKeys[1], v |-> VP(r * 1000 + n * 10 + 1), err |-> "must"],
                 [op |-> "ins", path |-> x.path, pos |-> sz + 1, vals |-> DBatch(<<"p">>, r, n), err |-> "must"],
                 [op |-> "ins", path |-> x.path, pos |-> -1, vals |-> DBatch(<<"p">>, r, n), err |-> "must"],
                 [op |-> "del", path |-> x.path, pos |-> sz, n |-> 1, err |-> "must"],
                 [op |-> "upd", path |-> x.path, pos |-> sz, vals |-> DBatch(<<"p">>, r, n), err |-> "must"],
                 [op |-> "ins", path |-> x.path, pos |-> 0, vals |-> <<VP(-1)>>, err |-> "must"]}                \* null value
                \cup (IF sz > 0 THEN {[op |-> "upd", path |-> x.path, pos |-> 0, vals |-> <<VP(-1)>>, err |-> "must"]} ELSE {})
          : x \in DContainers(T)}

DLocal(T, call, ts) ==
    LET c == DResolve(T, call.path)
        node == T[c]
        live == DLiveItems(T, node)
    IN CASE call.op = "put" ->
              LET op == [type |-> "put", ts |-> ts, P |-> c, K |-> call.k, V |-> call.v]
                  old == IF call.k \in DOMAIN node.m /\ ~DIsTomb(T[node.m[call.k]]) THEN DViewOf(T, node.m[call.k]) ELSE VP(-1)
              IN [s |-> DPutApply(T, op), ret |-> old, body |-> [type |-> "put", P |-> c, K |-> call.k, V |-> call.v]]
         [] call.op = "rmv" ->
              LET op == [type |-> "rmv", ts |-> ts, P |-> c, K |-> call.k]
              IN [s |-> DRmvApply(T, op), ret |-> DViewOf(T, node.m[call.k]), body |-> [type |-> "rmv", P |-> c, K |-> call.k]]
         [] call.op = "ins" ->
              LET tgt == IF call.pos = 0 THEN HeadTs ELSE live[call.pos].o
                  op == [type |-> "ins", ts |-> ts, P |-> c, T |-> tgt, V |-> call.vals]
                  \* local insert goes right after the anchor (no sibling skip)
                  cr == DCreateSeq(c, call.vals, ts[1], ts[2], 0)
                  T1 == DMerge(T, cr.tbl)
                  new == [i \in 1..Len(cr.roots) |-> [o |-> cr.roots[i], c |-> cr.roots[i]]]
              IN [s |-> [T1 EXCEPT ![c].items = DInsertAt(T1[c].items, DIdxOfO(T1[c].items, tgt), new)],
                  ret |-> VP(-1), body |-> [type |-> "ins", P |-> c, T |-> tgt, V |-> call.vals]]
         [] call.op = "del" ->
              LET tg == [k \in 1..call.n |-> live[call.pos + k].o]
                  op == [type |-> "del", ts |-> ts, P |-> c, T |-> tg]
              IN [s |-> DDelApply(T, op), ret |-> [k \in 1..call.n |-> DViewOf(T, live[call.pos + k].c)],
                  body |-> [type |-> "del", P |-> c, T |-> tg]]
         [] call.op = "upd" ->
              LET tg == [k \in 1..Len(call.vals) |-> live[call.pos + k].o]
                  op == [type |-> "upd", ts |-> ts, P |-> c, T |-> tg, V |-> call.vals]
              IN [s |-> DUpdApply(T, op), ret |-> [k \in 1..Len(call.vals) |-> DViewOf(T, live[call.pos + k].c)],
                  body |-> [type |-> "upd", P |-> c, T |-> tg, V |-> call.vals]]

\* ---- the plain structure: a JSON tree
RECURSIVE PSet(_, _, _)
\* replace the container at path by nv
PSet(p, path, nv) ==
    IF path = <<>> THEN nv
    ELSE IF p.t = "o" THEN VO([p.o EXCEPT ![Head(path)] = PSet(@, Tail(path), nv)])
    ELSE LET i == CHOOSE i \in 1..Len(p.a) : ToString(i - 1) = Head(path)
         IN VA([p.a EXCEPT ![i] = PSet(@, Tail(path), nv)])
RECURSIVE PGet(_, _)
PGet(p, path) == IF path = <<>> THEN p
                 ELSE IF p.t = "o" THEN PGet(p.o[Head(path)], Tail(path))
                 ELSE PGet(p.a[CHOOSE i \in 1..Len(p.a) : ToString(i - 1) = Head(path)], Tail(path))
DPlainInit == VO(DEmpty)
DPlainView(p) == p
DPlain(p, call) ==
    LET cont == PGet(p, call.path) IN
    CASE call.op = "put" -> [p |-> PSet(p, call.path, VO(DMerge(cont.o, call.k :> call.v))),
                             ret |-> IF call.k \in DOMAIN cont.o THEN cont.o[call.k] ELSE VP(-1)]
      [] call.op = "rmv" -> [p |-> PSet(p, call.path, VO([k \in (DOMAIN cont.o) \ {call.k} |-> cont.o[k]])),
                             ret |-> cont.o[call.k]]
      [] call.op = "ins" -> [p |-> PSet(p, call.path, VA(DInsertAt(cont.a, call.pos, call.vals))), ret |-> VP(-1)]
      [] call.op = "del" -> [p |-> PSet(p, call.path, VA(SubSeq(cont.a, 1, call.pos) \o SubSeq(cont.a, call.pos + call.n + 1, Len(cont.a)))),
                             ret |-> SubSeq(cont.a, call.pos + 1, call.pos + call.n)]
      [] call.op = "upd" -> [p |-> PSet(p, call.path, VA([i \in 1..Len(cont.a) |->
                                        IF i > call.pos /\ i <= call.pos + Len(call.vals) THEN call.vals[i - call.pos] ELSE cont.a[i]])),
                             ret |-> SubSeq(cont.a, call.pos + 1, call.pos + Len(call.vals))]

\* ---- reference outcome of a SET of document operations: the operations applied one at a time in
\* timestamp order (a causal order; it does not depend on arrival order)
RECURSIVE DSorted(_)
DSorted(S) == IF S = {} THEN <<>>
              ELSE LET m == CHOOSE o \in S : \A p \in S : p = o \/ TsLess(o.ts, p.ts) IN <<m>> \o DSorted(S \ {m})
RECURSIVE DFoldOps(_, _)
DFoldOps(T, ops) == IF ops = <<>> THEN T ELSE DFoldOps(DRemote(T, Head(ops)), Tail(ops))
DRef(S) == DView(DFoldOps(DInit, DSorted(S)))

\* explicit statement of the object rule for C02: a key of a reachable object shows the value created by
\* the put with the greatest timestamp among the operations addressed to that object and key, and nothing
\* if a remove with a still greater timestamp was applied
DObjRule(T, S) ==
    \A x \in DContainers(T) : T[x.c].kind = "O" =>
        \A k \in DKeySet :
            LET onk == {o \in S : o.type \in {"put", "rmv"} /\ o.P = x.c /\ o.K = k}
                shown == k \in DOMAIN T[x.c].m /\ ~DIsTomb(T[T[x.c].m[k]])
            IN IF onk = {} THEN (x.c = HeadTs => ~shown)
               ELSE LET w == CHOOSE o \in onk : \A p \in onk : p = o \/ TsLess(p.ts, o.ts)
                    IN IF w.type = "rmv" THEN ~shown ELSE shown /\ T[x.c].m[k] = <<w.ts[1], w.ts[2], 0>>
====
