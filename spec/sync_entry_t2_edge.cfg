\* generated by gensync.py - edit there
SPECIFICATION Spec
CONSTANTS
 Clients = {1, 2}
 Creators = {1, 2}
 Subscribers = {}
 OtherType = {2}
 MaxPre = 0
 MaxOps = 1
 MaxSends = 4
 MaxServes = 1
 MaxApplies = 1
 Faults = FALSE
 KeepHist = TRUE
INVARIANT LogNoRepeats
INVARIANT LogEndRecorded
INVARIANT PerClientOrder
INVARIANT CpWithinLog
INVARIANT AppliedExactlyOnce
INVARIANT AppliedInLogOrder
INVARIANT ClientCpWithinLog
INVARIANT QuiescentAgreement
INVARIANT OneDatatype
PROPERTY CpMonotone
VIEW StateView
ACTION_CONSTRAINT EdgeDump
CHECK_DEADLOCK FALSE
