\* generated by gensnap.py - edit there
SPECIFICATION Spec
CONSTANTS
 Clients = {1, 2}
 MaxLocal = 2
 MaxSyncs = 3
 MaxPatches = 0
 MaxUpdaters = 2
 InitSnapshot = TRUE
INVARIANT SnapshotWithinLog
INVARIANT UserDocIsSnapshot
INVARIANT OneUpdaterAtATime
INVARIANT PubsMonotone
INVARIANT PubsWithinLog
PROPERTY UserDocMonotone
VIEW StateView
ACTION_CONSTRAINT EdgeDump
CHECK_DEADLOCK FALSE
