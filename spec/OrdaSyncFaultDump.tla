---- MODULE OrdaSyncFaultDump ----
EXTENDS OrdaSyncFault, Json, TLCExt
CpOut(x) == IF x = NoCp THEN <<-1, -1>> ELSE <<x.s, x.c>>
Obs == [cl |-> [c \in Clients |-> [state |-> cl[c].state, cps |-> cl[c].cps, cpc |-> cl[c].cpc, seq |-> cl[c].seq,
                                   applied |-> cl[c].applied, errs |-> cl[c].errs, settled |-> Settled(c)]],
        oplog |-> oplog, exists |-> dt.exists, owner |-> dt.duid, end |-> dt.end,
        scp |-> [c \in Clients |-> CpOut(dt.scp[c])]]
EdgeDump == PrintT("EDGE " \o ToJson([hist |-> hist', obs |-> Obs']))
StepDump == PrintT("STEP " \o ToJson([t |-> TLCGet("stats").traces, l |-> TLCGet("level"), act |-> act,
                                      pact |-> IF Len(hist) >= 2 THEN hist[Len(hist) - 1] ELSE [name |-> "init"], obs |-> Obs]))
====
