\* generated by genrt.py - edit there
SPECIFICATION Spec
CONSTANTS
 Clients = {1, 2}
 Keys = {1, 2}
 MaxLocal = 2
 MaxReqs = 4
 Queued = FALSE
 Hist = FALSE
INVARIANT LogNoRepeats
INVARIANT PerClientOrder
INVARIANT ServerCpExact
INVARIANT AppliedExactlyOnce
INVARIANT AppliedInLogOrder
INVARIANT ClientCpWithinLog
INVARIANT SemaHeldByRequest
INVARIANT NotifiedEnds
INVARIANT IdleIsSettled
INVARIANT SettledAgree
PROPERTY CpMonotone
VIEW StateView
CHECK_DEADLOCK FALSE
