\* generated by gensync.py - edit there
SPECIFICATION PSpec
CONSTANTS
 Clients = {1, 2}
 Creators = {1}
 Subscribers = {2}
 OtherType = {}
 MaxPre = 0
 MaxOps = 1
 MaxSends = 3
 MaxServes = 1
 MaxApplies = 1
 Faults = FALSE
 KeepHist = TRUE
 Mutations = {"crossDuid", "crossDuidCreate", "crossDuidSubscribe", "crossDuidSubCreate", "crossCollection", "crossRegister", "sameKeyOtherCollection", "resetOther", "resetOwn"}
INVARIANT LogNoRepeats
INVARIANT LogEndRecorded
INVARIANT PerClientOrder
INVARIANT CpWithinLog
INVARIANT AppliedExactlyOnce
INVARIANT AppliedInLogOrder
INVARIANT ClientCpWithinLog
INVARIANT QuiescentAgreement
INVARIANT OneDatatype
PROPERTY CpMonotone
VIEW PStateView
ACTION_CONSTRAINT EdgeDump
CHECK_DEADLOCK FALSE
