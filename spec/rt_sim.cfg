\* generated by genrt.py - edit there
SPECIFICATION Spec
CONSTANTS
 Clients = {1, 2, 3}
 Keys = {1, 2}
 MaxLocal = 3
 MaxReqs = 30
 Queued = TRUE
 Hist = TRUE
INVARIANT LogNoRepeats
INVARIANT PerClientOrder
INVARIANT ServerCpExact
INVARIANT AppliedExactlyOnce
INVARIANT AppliedInLogOrder
INVARIANT ClientCpWithinLog
INVARIANT SemaHeldByRequest
INVARIANT NotifiedEnds
INVARIANT IdleIsSettled
INVARIANT SettledAgree
INVARIANT StepDump
CHECK_DEADLOCK FALSE
