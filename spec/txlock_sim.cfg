\* generated by gentxlock.py - edit there
SPECIFICATION Spec
CONSTANTS
 KindOf = 0
 Procs = {1, 2, 3, 4}
 OpProcs = {1, 4}
 TxProcs = {2}
 RemoteProcs = {3}
 Calls = 3
 TxLen = 3
 Guarded = TRUE
 FailProcs = {}
INVARIANT NoCrash
INVARIANT MutualExclusion
INVARIANT NoLostUnlock
INVARIANT NoLostUpdate
INVARIANT QueuedOnce
INVARIANT TxContiguous
INVARIANT StepDump
CHECK_DEADLOCK FALSE
