#!/bin/bash
# Build the harness from files on disk only (offline).
set -e
cd "$(dirname "$0")"
. ./lib/env.sh
cd harness
go build -tags verif -o ../bin/ ./cmd/... 
